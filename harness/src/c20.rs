//! C20: clamps. Exhaustive over all 2^32 f32 bit patterns for the two float conversions, all 256 u8
//! values for notes and channels, plus differential envelopes (out-of-range value vs. its bound).

use crate::adsr::{self, Op as AOp};
use crate::report::{fmt_f32, guard, par_shards, Ctx, Report, Tier, Violation};
use crate::replay::{f, pf, Text};
use crate::rng::Rng;
use synth_utils::adsr::{SustainLevel, TimePeriod};
use synth_utils::quantizer::{Note, Quantizer};

const T_MIN: f32 = 0.001;
const T_MAX: f32 = 20.0;

fn conv_text(kind: &str, x: f32) -> String {
    let mut t = Text::new();
    t.set("property", "C20").set("module", "c20-conv");
    t.ops.push(format!("{} {}  # {:e}", kind, f(x), x));
    t.to_text()
}

/// judge one conversion; Err(clause, message)
pub fn judge_time(x: f32) -> Result<(), (&'static str, String)> {
    let r = match guard(|| {
        let t = TimePeriod::from(x);
        let r = f32::from(t);
        // converting the read-back again changes nothing (a legal value is "unchanged if already inside")
        (r, f32::from(TimePeriod::from(r)), t == TimePeriod::from(r))
    }) {
        Ok((r, r2, same)) if r2.to_bits() == r.to_bits() && same => r,
        Ok((r, r2, same)) => return Err(("time-clamp", format!("TimePeriod::from({}) reads back {} but converting that again gives {} (equal as TimePeriod: {})", fmt_f32(x), fmt_f32(r), fmt_f32(r2), same))),
        Err(p) => return Err(("panic", format!("TimePeriod::from({}) panicked: {}", fmt_f32(x), p))),
    };
    let ok = if x.is_nan() {
        r == T_MIN || r == T_MAX
    } else if x < T_MIN {
        r == T_MIN
    } else if x > T_MAX {
        r == T_MAX
    } else {
        r == x
    };
    if ok {
        Ok(())
    } else {
        Err(("time-clamp", format!("f32::from(TimePeriod::from({})) = {}: expected {}", fmt_f32(x), fmt_f32(r), if x.is_nan() { "0.001 or 20".to_string() } else if x < T_MIN { "0.001".into() } else if x > T_MAX { "20".into() } else { "the value itself".into() })))
    }
}

pub fn judge_level(x: f32) -> Result<(), (&'static str, String)> {
    let r = match guard(|| {
        let t = SustainLevel::from(x);
        let r = f32::from(t);
        (r, f32::from(SustainLevel::from(r)), t == SustainLevel::from(r))
    }) {
        Ok((r, r2, same)) if r2.to_bits() == r.to_bits() && same => r,
        Ok((r, r2, same)) => return Err(("level-clamp", format!("SustainLevel::from({}) reads back {} but converting that again gives {} (equal as SustainLevel: {})", fmt_f32(x), fmt_f32(r), fmt_f32(r2), same))),
        Err(p) => return Err(("panic", format!("SustainLevel::from({}) panicked: {}", fmt_f32(x), p))),
    };
    let ok = if x.is_nan() {
        r == 0.0 || r == 1.0
    } else if x < 0.0 {
        r == 0.0
    } else if x > 1.0 {
        r == 1.0
    } else {
        r == x
    };
    if ok {
        Ok(())
    } else {
        Err(("level-clamp", format!("f32::from(SustainLevel::from({})) = {}: expected {}", fmt_f32(x), fmt_f32(r), if x.is_nan() { "0 or 1".to_string() } else if x < 0.0 { "0".into() } else if x > 1.0 { "1".into() } else { "the value itself".into() })))
    }
}

pub fn sweep_floats(ctx: &Ctx) -> Report {
    // Small tier: a stride through the bit patterns plus all exponent boundaries
    let chunks = 1024usize;
    let mut rep = par_shards(ctx, chunks, |c| {
        let mut rep = Report::new();
        let lo = (c as u64) << 22;
        let hi = lo + (1 << 22);
        let stride: u64 = if ctx.tier == Tier::Small { 65_521 } else { 1 };
        let mut bits = lo;
        let mut n = 0u64;
        while bits < hi {
            let x = f32::from_bits(bits as u32);
            n += 2;
            if let Err((cl, msg)) = judge_time(x) {
                rep.violate(Violation { clause: cl.into(), signature: format!("C20:{}", cl), message: msg, replay: conv_text("time", x) });
                break;
            }
            if let Err((cl, msg)) = judge_level(x) {
                rep.violate(Violation { clause: cl.into(), signature: format!("C20:{}", cl), message: msg, replay: conv_text("level", x) });
                break;
            }
            bits += stride;
        }
        rep.evaluations += n;
        rep.count("c20.float_conversions", n);
        // classes: sign x exponent of the chunk
        rep.class(("f32chunk", c));
        rep
    });
    if ctx.tier != Tier::Small && rep.violations.is_empty() {
        rep.exhaustive = Some("all 2^32 f32 bit patterns through TimePeriod::from and SustainLevel::from; all 256 u8 note and channel arguments".into());
    }
    rep
}

pub fn sweep_notes(rep: &mut Report) {
    for n in 0..=255u8 {
        let want = n.min(11);
        let res = guard(|| {
            let got = u8::from(Note::from(n));
            let mut q = Quantizer::new();
            // forbid through the raw value, observe through exact pitch classes
            q.forbid(&[Note::from(n)]);
            let mask_after_forbid: u16 = (0..12u8).filter(|k| q.is_allowed(Note::from(*k))).fold(0, |m, k| m | 1 << k);
            let seen_forbidden = !q.is_allowed(Note::from(n));
            q.allow(&[Note::from(n)]);
            let mask_after_allow: u16 = (0..12u8).filter(|k| q.is_allowed(Note::from(*k))).fold(0, |m, k| m | 1 << k);
            // forbid everything, the raw value last: the one note that cannot be removed is the one it acts as
            let mut q2 = Quantizer::new();
            let others: Vec<Note> = (0..12u8).filter(|k| *k != n.min(11)).map(Note::from).collect();
            q2.forbid(&others);
            q2.forbid(&[Note::from(n)]);
            let survivor: u16 = (0..12u8).filter(|k| q2.is_allowed(Note::from(*k))).fold(0, |m, k| m | 1 << k);
            // twin quantizers, one edited through the raw value and one through the value it must act as,
            // convert the same voltages identically
            let (mut qa, mut qb) = (Quantizer::new(), Quantizer::new());
            let mut twin_equal = true;
            for step in 0..3 {
                match step {
                    0 => { qa.forbid(&[Note::from(n), Note::from(3)]); qb.forbid(&[Note::from(n.min(11)), Note::from(3)]); }
                    1 => { qa.allow(&[Note::from(n)]); qb.allow(&[Note::from(n.min(11))]); }
                    _ => { qa.forbid(&[Note::from(0), Note::from(n)]); qb.forbid(&[Note::from(0), Note::from(n.min(11))]); }
                }
                for k in 0..40 {
                    let v = -0.1 + 0.2617 * k as f32;
                    let (a, b) = (qa.convert(v), qb.convert(v));
                    twin_equal &= a.note_num == b.note_num && a.stairstep.to_bits() == b.stairstep.to_bits() && a.fraction.to_bits() == b.fraction.to_bits();
                }
            }
            (got, mask_after_forbid, seen_forbidden, mask_after_allow, survivor, twin_equal)
        });
        rep.evaluations += 1;
        rep.count("c20.note_arguments", 1);
        let mut t = Text::new();
        t.set("property", "C20").set("module", "c20-conv");
        t.ops.push(format!("note {}", n));
        match res {
            Err(p) => rep.violate(Violation { clause: "panic".into(), signature: format!("C20:panic:{}", p), message: format!("Note::from({}) panicked: {}", n, p), replay: t.to_text() }),
            Ok((got, mf, sf, ma, survivor, twin_equal)) => {
                let exp_forbid = 0x0FFFu16 & !(1 << want);
                if survivor != 1 << want {
                    rep.violate(Violation { clause: "note-clamp".into(), signature: "C20:note-clamp:survivor".into(), message: format!("note argument {} must act as {}: with every other note forbidden first, forbidding it leaves the scale {:#05x} (expected {:#05x})", n, want, survivor, 1u16 << want), replay: t.to_text() });
                }
                if !twin_equal {
                    rep.violate(Violation { clause: "note-clamp".into(), signature: "C20:note-clamp:twin".into(), message: format!("a quantizer edited through note argument {} converts differently from one edited through {}", n, want), replay: t.to_text() });
                }
                if got != want || mf != exp_forbid || !sf || ma != 0x0FFF {
                    rep.violate(Violation { clause: "note-clamp".into(), signature: "C20:note-clamp".into(), message: format!("note argument {} must act as {}: u8::from = {}, scale after forbid {:#05x} (expected {:#05x}), after allow {:#05x}", n, want, got, mf, exp_forbid, ma), replay: t.to_text() });
                }
            }
        }
    }
}

/// an envelope configured with an out-of-range value behaves identically to one configured with the bound
pub fn differential(ctx: &Ctx) -> Report {
    let n = ctx.budget(6, 20_000, 1_000_000) as usize;
    let shards = if ctx.tier == Tier::Small { 1 } else { 64 };
    par_shards(ctx, shards, |sh| {
        let mut rep = Report::new();
        let mut r = Rng::derive(ctx.seed, "c20.differential", sh as u64);
        for j in 0..(n + shards - 1) / shards {
            let fs = adsr::pick_fs(&mut r);
            // which parameter is out of range, and how
            let which = r.below(4);
            let (raw, bound): (f32, f32) = if which == 3 {
                let x = match r.below(7) {
                    6 => f32::NAN,
                    0 => -(r.unit() as f32) - 1e-6,
                    1 => 1.0 + r.unit() as f32 + 1e-6,
                    2 => *r.pick(&[f32::NEG_INFINITY, -1e30, -1e-45, -f32::MIN_POSITIVE]),
                    3 => *r.pick(&[f32::INFINITY, 1e30, 1.000_000_1, 2.0]),
                    4 => -r.finite_f32().abs(),
                    _ => 1.0 + r.finite_f32().abs(),
                };
                // NaN must become a bound: the one the conversion itself reports
                (x, if x.is_nan() { adsr::clamp_level(x) } else if x < 0.0 { 0.0 } else { 1.0 })
            } else {
                let x = match r.below(7) {
                    6 => f32::NAN,
                    0 => (r.unit() * 0.000_999) as f32,
                    1 => 20.0 + (r.unit() * 1e3) as f32 + 1e-5,
                    2 => *r.pick(&[0.0f32, -0.0, -1.0, f32::NEG_INFINITY, 1e-45, 0.000_999_9, -1e30]),
                    3 => *r.pick(&[f32::INFINITY, 20.000_002, 1e30, f32::MAX, 21.0]),
                    4 => -r.finite_f32().abs(),
                    _ => 20.0 + r.finite_f32().abs().max(1e-5),
                };
                (x, if x.is_nan() { adsr::clamp_time(x) } else if x < T_MIN { T_MIN } else { T_MAX })
            };
            if (which == 3 && (0.0..=1.0).contains(&raw)) || (which != 3 && (T_MIN..=T_MAX).contains(&raw)) || bound.is_nan() {
                continue;
            }
            let max_ticks = if ctx.tier == Tier::Small { 20.0 } else { 300.0 };
            let mut base = adsr::gen_storm(&mut r, fs, max_ticks, if ctx.tier == Tier::Small { 6 } else { 14 }, 0.1);
            // keep T_MAX phases out of the tick budget: a 20 s phase is simply not run to its end
            let put = |ops: &mut Vec<AOp>, v: f32| {
                ops.insert(
                    4,
                    match which {
                        0 => AOp::Attack(v),
                        1 => AOp::Decay(v),
                        2 => AOp::Release(v),
                        _ => AOp::Sustain(v),
                    },
                );
            };
            let mut h_raw = base.clone();
            put(&mut h_raw.ops, raw);
            put(&mut base.ops, bound);
            // drop later settings of the same parameter so that the clamped one stays in force for a while
            let (mut ta, mut tb) = (adsr::Trace::default(), adsr::Trace::default());
            let mut scratch = Report::new();
            let va = adsr::execute(&h_raw, "C17", &mut scratch, Some(&mut ta));
            let vb = adsr::execute(&base, "C17", &mut scratch, Some(&mut tb));
            rep.evaluations += (ta.values.len() + tb.values.len()) as u64;
            rep.count("c20.differential_envelopes", 1);
            rep.class(("diff", which, raw.is_sign_negative(), raw.is_infinite(), (fs as f64).log10() as i64));
            if sh == 0 && j < 2 {
                rep.sample(format!("adsr twin: parameter {} = {} vs bound {} on {}", which, raw, bound, h_raw.brief()));
            }
            let bad = va.is_some() != vb.is_some() || ta.values != tb.values;
            if bad {
                let idx = ta.values.iter().zip(tb.values.iter()).position(|(a, b)| a != b).unwrap_or(ta.values.len().min(tb.values.len()));
                let mut t = Text::parse(&h_raw.to_text("C20", usize::MAX - 1, None)).unwrap();
                t.head.retain(|(k, _)| k != "module");
                t.set("module", "c20-adsr-twin").set("which", which.to_string()).set("raw", f(raw)).set("bound", f(bound));
                rep.violate(Violation {
                    clause: "behaves-as-bound".into(),
                    signature: "C20:behaves-as-bound".into(),
                    message: format!("an envelope configured with {} (parameter {}) differs from one configured with the bound {} at tick {} (fs={})", fmt_f32(raw), ["attack", "decay", "release", "sustain"][which as usize], bound, idx, fs),
                    replay: t.to_text(),
                });
            }
        }
        rep
    })
}

/// every constructor argument above 15 against a twin constructed with 15, byte for byte on arbitrary streams
/// (notes, controllers, pitch bend, SysEx with device ids, parameter-number sequences): identical observable
/// outputs and edge flags after every byte
pub fn channel_twins(ctx: &Ctx) -> Report {
    use crate::midi::{self, Op as MOp};
    use synth_utils::mono_midi_receiver::MonoMidiReceiver;
    let args: Vec<u8> = if ctx.tier == Tier::Small { vec![16, 126, 200, 255] } else { (16..=255u8).collect() };
    let per_arg = ctx.budget(1, 12, 400) as usize;
    par_shards(ctx, args.len(), |k| {
        let mut rep = Report::new();
        let c = args[k];
        let mut r = Rng::derive(ctx.seed, "c20.channel_twins", c as u64);
        for j in 0..per_arg {
            let mut h = match j % 4 {
                0 => midi::gen_sysex(&mut r),
                1 => midi::gen_rpn_nrpn(&mut r, 15),
                2 => midi::gen_notes(&mut r, 80, 0.2, false),
                _ => midi::gen_bytes(&mut r, 300),
            };
            // re-target the stream to channel 15: status bytes of the generated channel become channel 15
            let from = h.channel_arg.min(15);
            for op in h.ops.iter_mut() {
                if let MOp::Byte(b) = op {
                    if (0x80..0xF0).contains(b) && (*b & 0x0F) == from {
                        *b = (*b & 0xF0) | 0x0F;
                    } else if *b == from && from != 15 && r.chance(0.5) {
                        // data bytes equal to the old channel number (e.g. a SysEx device id) follow it
                        *b = 15;
                    }
                }
            }
            h.channel_arg = c;
            let res = guard(|| {
                let mut a = MonoMidiReceiver::new(c);
                let mut b = MonoMidiReceiver::new(15);
                for (i, op) in h.ops.iter().enumerate() {
                    match op {
                        MOp::Byte(x) => {
                            a.parse(*x);
                            b.parse(*x);
                        }
                        MOp::PollRising => {
                            if a.rising_gate() != b.rising_gate() {
                                return Some((i, "rising_gate".to_string()));
                            }
                        }
                        MOp::PollFalling => {
                            if a.falling_gate() != b.falling_gate() {
                                return Some((i, "falling_gate".to_string()));
                            }
                        }
                        MOp::Priority(_) | MOp::Retrigger(_) | MOp::Repeat(_, _) => {}
                    }
                    let (oa, ob) = (midi::read_out(&a), midi::read_out(&b));
                    if format!("{:?}", oa) != format!("{:?}", ob) {
                        return Some((i, format!("{:?} vs {:?}", oa, ob)));
                    }
                }
                None
            });
            rep.evaluations += 2 * h.ops.len() as u64;
            rep.count("c20.channel_twin_histories", 1);
            rep.class(("chtwin", c / 16, j % 4));
            let bad = match res {
                Ok(None) => None,
                Ok(Some((i, what))) => Some((i, what)),
                Err(_) => {
                    // both twins were fed the same bytes in lock step: a panic is C17's subject, not a divergence
                    rep.count("c20.channel_twin_aborted_by_panic", 1);
                    None
                }
            };
            if let Some((i, what)) = bad {
                let mut t = Text::parse(&h.to_text("C20", i)).unwrap();
                t.head.retain(|(kk, _)| kk != "module");
                t.set("module", "c20-channel-twin");
                rep.violate(Violation { clause: "channel-acts-as-15".into(), signature: "C20:channel-acts-as-15".into(), message: format!("MonoMidiReceiver::new({}) and ::new(15) diverge at op #{} of the same byte stream: {}", c, i, what), replay: t.to_text() });
            }
        }
        rep
    })
}

pub fn run(ctx: &Ctx) -> Report {
    let mut rep = Report::new();
    let stage = |name: &str, r: Report, rep: &mut Report, t0: std::time::Instant| {
        let ev = r.evaluations;
        rep.merge(r);
        rep.stages.push((name.to_string(), t0.elapsed().as_secs_f64(), ev));
    };
    let t0 = std::time::Instant::now();
    stage("c20.all_f32_bit_patterns", sweep_floats(ctx), &mut rep, t0);
    let t0 = std::time::Instant::now();
    let mut r = Report::new();
    sweep_notes(&mut r);
    crate::midi::check_channel_clamp(&mut r, "C20");
    stage("c20.all_u8_notes_and_channels", r, &mut rep, t0);
    let t0 = std::time::Instant::now();
    stage("c20.channel_twins", channel_twins(ctx), &mut rep, t0);
    let t0 = std::time::Instant::now();
    stage("c20.differential_envelopes", differential(ctx), &mut rep, t0);
    rep.sample("TimePeriod::from(f32::from_bits(b)) and SustainLevel::from(..) for b = 0x00000000, 0x00000001, ... 0xffffffff".into());
    if ctx.tier != Tier::Small {
        rep.floor("c20.float_conversions", 1u64 << 33);
        rep.floor("c20.note_arguments", 256);
        rep.floor("midi.channel_args_checked", 256);
        rep.floor("c20.differential_envelopes", 500);
        rep.floor("c20.channel_twin_histories", 2000);
    }
    rep
}

pub fn replay(t: &Text, rep: &mut Report) -> Result<Option<Violation>, String> {
    match t.get("module")? {
        "c20-conv" => {
            for l in &t.ops {
                let mut it = l.split_whitespace();
                let kind = it.next().unwrap_or("");
                let arg = it.next().ok_or("arg")?;
                rep.evaluations += 1;
                let res = match kind {
                    "time" => judge_time(pf(arg)?),
                    "level" => judge_level(pf(arg)?),
                    "note" => {
                        let mut r2 = Report::new();
                        sweep_notes(&mut r2);
                        return Ok(r2.violations.into_iter().next());
                    }
                    _ => return Err(format!("unknown c20 op {}", kind)),
                };
                if let Err((cl, msg)) = res {
                    return Ok(Some(Violation { clause: cl.into(), signature: format!("C20:{}", cl), message: msg, replay: t.to_text() }));
                }
            }
            Ok(None)
        }
        "c20-adsr-twin" => {
            let h_raw = adsr::History::parse(t)?;
            let raw = pf(t.get("raw")?)?;
            let bound = pf(t.get("bound")?)?;
            let mut h_b = h_raw.clone();
            for op in h_b.ops.iter_mut() {
                match op {
                    AOp::Attack(x) | AOp::Decay(x) | AOp::Release(x) | AOp::Sustain(x) if x.to_bits() == raw.to_bits() => *x = bound,
                    _ => {}
                }
            }
            let (mut ta, mut tb) = (adsr::Trace::default(), adsr::Trace::default());
            let mut scratch = Report::new();
            let va = adsr::execute(&h_raw, "C17", &mut scratch, Some(&mut ta));
            let vb = adsr::execute(&h_b, "C17", &mut scratch, Some(&mut tb));
            rep.evaluations += (ta.values.len() + tb.values.len()) as u64;
            if va.is_some() != vb.is_some() || ta.values != tb.values {
                return Ok(Some(Violation { clause: "behaves-as-bound".into(), signature: "C20:behaves-as-bound".into(), message: format!("envelope configured with {} differs from one configured with {}", raw, bound), replay: t.to_text() }));
            }
            Ok(None)
        }
        "midi" => crate::midi::replay(t, "C20", rep),
        "c20-channel-twin" => {
            use crate::midi::{self, Op as MOp};
            use synth_utils::mono_midi_receiver::MonoMidiReceiver;
            let h = midi::History::parse(t)?;
            let mut a = MonoMidiReceiver::new(h.channel_arg);
            let mut b = MonoMidiReceiver::new(15);
            for (i, op) in h.ops.iter().enumerate() {
                let mut diff = None;
                match op {
                    MOp::Byte(x) => {
                        a.parse(*x);
                        b.parse(*x);
                    }
                    MOp::PollRising => {
                        if a.rising_gate() != b.rising_gate() {
                            diff = Some("rising_gate".to_string());
                        }
                    }
                    MOp::PollFalling => {
                        if a.falling_gate() != b.falling_gate() {
                            diff = Some("falling_gate".to_string());
                        }
                    }
                    _ => {}
                }
                rep.evaluations += 2;
                let (oa, ob) = (midi::read_out(&a), midi::read_out(&b));
                if diff.is_none() && format!("{:?}", oa) != format!("{:?}", ob) {
                    diff = Some(format!("{:?} vs {:?}", oa, ob));
                }
                if let Some(d) = diff {
                    return Ok(Some(Violation { clause: "channel-acts-as-15".into(), signature: "C20:channel-acts-as-15".into(), message: format!("new({}) and new(15) diverge at op #{}: {}", h.channel_arg, i, d), replay: t.to_text() }));
                }
            }
            Ok(None)
        }
        m => Err(format!("unknown C20 replay module {}", m)),
    }
}
