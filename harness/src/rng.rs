//! xoshiro256** seeded through splitmix64. Every random choice of every workload comes from here,
//! so a (property, tier, seed, shard) tuple identifies a workload exactly.

#[derive(Clone, Debug)]
pub struct Rng {
    s: [u64; 4],
}

fn splitmix(x: &mut u64) -> u64 {
    *x = x.wrapping_add(0x9E37_79B9_7F4A_7C15);
    let mut z = *x;
    z = (z ^ (z >> 30)).wrapping_mul(0xBF58_476D_1CE4_E5B9);
    z = (z ^ (z >> 27)).wrapping_mul(0x94D0_49BB_1331_11EB);
    z ^ (z >> 31)
}

/// stable string hash (FNV-1a), used to mix property ids / stage names into seeds
pub fn fnv(s: &str) -> u64 {
    let mut h: u64 = 0xcbf2_9ce4_8422_2325;
    for b in s.bytes() {
        h ^= b as u64;
        h = h.wrapping_mul(0x0000_0100_0000_01B3);
    }
    h
}

impl Rng {
    pub fn new(seed: u64) -> Self {
        let mut x = seed;
        let s = [splitmix(&mut x), splitmix(&mut x), splitmix(&mut x), splitmix(&mut x)];
        Rng { s }
    }

    /// independent stream for (seed, label, shard)
    pub fn derive(seed: u64, label: &str, shard: u64) -> Self {
        Rng::new(seed ^ fnv(label).rotate_left(17) ^ shard.wrapping_mul(0xD6E8_FEB8_6659_FD93))
    }

    pub fn next_u64(&mut self) -> u64 {
        let r = self.s[1].wrapping_mul(5).rotate_left(7).wrapping_mul(9);
        let t = self.s[1] << 17;
        self.s[2] ^= self.s[0];
        self.s[3] ^= self.s[1];
        self.s[1] ^= self.s[2];
        self.s[0] ^= self.s[3];
        self.s[2] ^= t;
        self.s[3] = self.s[3].rotate_left(45);
        r
    }

    pub fn next_u32(&mut self) -> u32 {
        (self.next_u64() >> 32) as u32
    }

    /// uniform in 0..n (n > 0)
    pub fn below(&mut self, n: u64) -> u64 {
        debug_assert!(n > 0);
        ((self.next_u64() as u128 * n as u128) >> 64) as u64
    }

    pub fn usize_below(&mut self, n: usize) -> usize {
        self.below(n as u64) as usize
    }

    /// uniform integer in lo..=hi
    pub fn range(&mut self, lo: i64, hi: i64) -> i64 {
        lo + self.below((hi - lo + 1) as u64) as i64
    }

    /// uniform in [0,1)
    pub fn unit(&mut self) -> f64 {
        (self.next_u64() >> 11) as f64 / (1u64 << 53) as f64
    }

    pub fn uniform(&mut self, lo: f64, hi: f64) -> f64 {
        lo + (hi - lo) * self.unit()
    }

    /// log-uniform in [lo, hi], lo > 0
    pub fn log_uniform(&mut self, lo: f64, hi: f64) -> f64 {
        (lo.ln() + (hi.ln() - lo.ln()) * self.unit()).exp()
    }

    pub fn chance(&mut self, p: f64) -> bool {
        self.unit() < p
    }

    pub fn pick<'a, T>(&mut self, xs: &'a [T]) -> &'a T {
        &xs[self.usize_below(xs.len())]
    }

    /// any f32 bit pattern
    pub fn any_f32(&mut self) -> f32 {
        f32::from_bits(self.next_u32())
    }

    /// a finite f32 of arbitrary magnitude and sign
    pub fn finite_f32(&mut self) -> f32 {
        loop {
            let v = self.any_f32();
            if v.is_finite() {
                return v;
            }
        }
    }
}
