//! Observation transparency: getters must be pure. Two real instances are fed the same operations; on the first
//! every getter is read after every call (as all other monitors do), on the second the getters are read only at
//! sparse checkpoints. At the checkpoints both must report bit-identical values. A result that depends on *when* it
//! was read (lazy evaluation with a stale flag, caches refreshed by a read, events consumed by a getter that should
//! not consume them) violates the property that owns the output:
//!   MIDI note outputs -> C04, controller outputs -> C18, either under C06; ribbon pressing / edges -> C15,
//!   value() -> C16; Adsr::value() -> C01; Lfo::get() -> C10 ("reading one never disturbs another").

use crate::report::{guard, par_shards, Ctx, Report, Tier, Violation};
use crate::rng::Rng;
use crate::{adsr, lfo, midi, ribbon};
use synth_utils::adsr::{Adsr, Input};
use synth_utils::lfo::{Lfo, Waveshape};
use synth_utils::mono_midi_receiver::{MonoMidiReceiver, NotePriority, RetriggerMode};

fn viol(prop: &str, clause: &str, msg: String, replay: String) -> Violation {
    Violation { clause: clause.to_string(), signature: format!("{}:{}", prop, clause), message: msg, replay }
}

// ------------------------------------------------------------------------------------------------ MIDI

fn midi_twin(h: &midi::History, seed: u64, prop: &str) -> Result<Option<(usize, String, char)>, String> {
    guard(|| {
        let mut a = MonoMidiReceiver::new(h.channel_arg);
        let mut b = MonoMidiReceiver::new(h.channel_arg);
        let mut r = Rng::new(seed);
        let n = h.ops.len();
        for (i, op) in h.ops.iter().enumerate() {
            match op {
                midi::Op::Byte(x) => {
                    a.parse(*x);
                    b.parse(*x);
                }
                midi::Op::Priority(p) => {
                    let mk = |p: u8| match p {
                        0 => NotePriority::Last,
                        1 => NotePriority::High,
                        _ => NotePriority::Low,
                    };
                    a.set_note_priority(mk(*p));
                    b.set_note_priority(mk(*p));
                }
                midi::Op::Retrigger(x) => {
                    let mk = |x: bool| if x { RetriggerMode::AllowRetrigger } else { RetriggerMode::NoRetrigger };
                    a.set_retrigger_mode(mk(*x));
                    b.set_retrigger_mode(mk(*x));
                }
                // the self-clearing edge getters are part of the history itself: both twins call them
                midi::Op::PollRising => {
                    if a.rising_gate() != b.rising_gate() {
                        return Some((i, "rising_gate() differs between the twins".to_string(), 'n'));
                    }
                }
                midi::Op::PollFalling => {
                    if a.falling_gate() != b.falling_gate() {
                        return Some((i, "falling_gate() differs between the twins".to_string(), 'n'));
                    }
                }
                midi::Op::Repeat(_, _) => {}
            }
            // twin A: all plain getters after every call
            let oa = midi::read_out(&a);
            // twin B: only at sparse checkpoints
            if r.chance(0.03) || i + 1 == n {
                let ob = midi::read_out(&b);
                let note_diff = oa.gate != ob.gate || oa.note != ob.note || oa.vel.to_bits() != ob.vel.to_bits();
                let ctl_diff = format!("{:?}", (oa.pb.to_bits(), oa.mw.to_bits(), oa.vol.to_bits(), oa.cut.to_bits(), oa.res.to_bits(), oa.pt.to_bits(), oa.pe, oa.se))
                    != format!("{:?}", (ob.pb.to_bits(), ob.mw.to_bits(), ob.vol.to_bits(), ob.cut.to_bits(), ob.res.to_bits(), ob.pt.to_bits(), ob.pe, ob.se));
                let relevant = match prop {
                    "C04" => note_diff,
                    "C18" => ctl_diff,
                    _ => note_diff || ctl_diff,
                };
                if relevant {
                    return Some((i, format!("read after every call: {:?}; read only now: {:?}", oa, ob), if note_diff { 'n' } else { 'c' }));
                }
            }
        }
        None
    })
}

pub fn midi_transparency(ctx: &Ctx, prop: &str) -> Report {
    let small = ctx.tier == Tier::Small;
    let n = ctx.budget(6, 6_000, 300_000) as usize;
    let shards = if small { 1 } else { 64 };
    par_shards(ctx, shards, |s| {
        let mut rep = Report::new();
        let mut r = Rng::derive(ctx.seed, "twins.midi", s as u64);
        for j in 0..(n + shards - 1) / shards {
            let h = match j % 5 {
                0 => midi::gen_notes(&mut r, if small { 40 } else { 200 }, 0.05, false),
                1 => midi::gen_controllers_and_notes(&mut r, if small { 60 } else { 300 }),
                2 => midi::gen_bytes(&mut r, if small { 100 } else { 400 }),
                3 => {
                    let c = r.below(16) as u8;
                    midi::gen_rpn_nrpn(&mut r, c)
                }
                _ => midi::gen_sysex(&mut r),
            };
            let seed = r.next_u64();
            rep.evaluations += 2 * h.ops.len() as u64;
            rep.count("twins.midi_histories", 1);
            rep.class(("twin-midi", j % 5));
            match midi_twin(&h, seed, prop) {
                Ok(None) => {}
                Ok(Some((i, what, _grp))) => {
                    let mut t = crate::replay::Text::parse(&h.to_text(prop, i)).unwrap();
                    t.head.retain(|(k, _)| k != "module");
                    t.set("module", "twin-midi").set("twin_seed", seed.to_string());
                    rep.violate(viol(prop, "getter-not-pure", format!("MIDI receiver outputs depend on when they are read (op #{}): {}", i, what), t.to_text()));
                }
                Err(p) => {
                    // a panic is reported by the property's main monitor (and by C17), not as an impurity
                    rep.count("twins.aborted_by_panic", 1);
                    let _ = p;
                }
            }
        }
        rep
    })
}

pub fn midi_replay(t: &crate::replay::Text, prop: &str, rep: &mut Report) -> Result<Option<Violation>, String> {
    let h = midi::History::parse(t)?;
    let seed: u64 = t.get("twin_seed")?.parse().map_err(|e| format!("twin_seed: {}", e))?;
    rep.evaluations += 2 * h.ops.len() as u64;
    match midi_twin(&h, seed, prop) {
        Ok(Some((i, what, _))) => Ok(Some(viol(prop, "getter-not-pure", format!("outputs depend on when they are read (op #{}): {}", i, what), t.to_text()))),
        _ => Ok(None),
    }
}

// ------------------------------------------------------------------------------------------------ ribbon

fn ribbon_twin(h: &ribbon::History, seed: u64, prop: &str) -> Result<Option<(usize, String)>, String> {
    guard(|| {
        let c = h.cfg;
        let mut a = c.build()?;
        let mut b = c.build()?;
        let mut r = Rng::new(seed);
        let n_ops = h.ops.len();
        for (i, op) in h.ops.iter().enumerate() {
            match op {
                ribbon::Op::ReadPressed => {
                    if a.just_pressed() != b.just_pressed() {
                        return Some((i, "finger_just_pressed() differs between the twins".to_string()));
                    }
                }
                ribbon::Op::ReadReleased => {
                    if a.just_released() != b.just_released() {
                        return Some((i, "finger_just_released() differs between the twins".to_string()));
                    }
                }
                ribbon::Op::Poll(_, n) | ribbon::Op::Rand(_, n, _, _) => {
                    let mut nr = if let ribbon::Op::Rand(s, _, _, _) = op { Some(Rng::new(*s)) } else { None };
                    for k in 0..*n {
                        let x = match op {
                            ribbon::Op::Poll(x, _) => *x,
                            ribbon::Op::Rand(_, _, lo, hi) => nr.as_mut().unwrap().uniform(*lo as f64, *hi as f64) as f32,
                            _ => unreachable!(),
                        };
                        a.poll(x);
                        b.poll(x);
                        let (va, pa) = (a.value(), a.pressing());
                        if r.chance(0.01) || (i + 1 == n_ops && k + 1 == *n) {
                            let (vb, pb) = (b.value(), b.pressing());
                            let bad = match prop {
                                "C15" => pa != pb,
                                _ => va.to_bits() != vb.to_bits() || pa != pb,
                            };
                            if bad {
                                return Some((i, format!("sample {} of this op: read after every poll: value {} pressing {}; read only now: value {} pressing {}", k + 1, va, pa, vb, pb)));
                            }
                        }
                    }
                }
            }
        }
        None
    })
}

pub fn ribbon_transparency(ctx: &Ctx, prop: &str) -> Report {
    let small = ctx.tier == Tier::Small;
    let n = ctx.budget(3, 600, 20_000) as usize;
    let shards = if small { 1 } else { 64 };
    let rates: Vec<u32> = if small { vec![100, 1000] } else { vec![100, 250, 800, 1000, 2000, 3000, 7000, 10_000, 22_050] };
    par_shards(ctx, shards, |s| {
        let mut rep = Report::new();
        let mut r = Rng::derive(ctx.seed, "twins.ribbon", s as u64);
        for j in 0..(n + shards - 1) / shards {
            // sparse edge polls are part of the history (they consume the latches on both twins alike)
            let h = if j % 3 == 0 { ribbon::gen_tap_train(&mut r, &rates, false) } else { ribbon::gen_history(&mut r, &rates, false, if small { 3 } else { 8 }) };
            let seed = r.next_u64();
            rep.count("twins.ribbon_histories", 1);
            rep.class(("twin-ribbon", h.cfg.rate));
            match ribbon_twin(&h, seed, prop) {
                Ok(None) => {}
                Ok(Some((i, what))) => {
                    let mut t = crate::replay::Text::parse(&h.to_text(prop, i, None)).unwrap();
                    t.head.retain(|(k, _)| k != "module");
                    t.set("module", "twin-ribbon").set("twin_seed", seed.to_string());
                    rep.violate(viol(prop, "getter-not-pure", format!("ribbon outputs depend on when they are read (op #{}): {}", i, what), t.to_text()));
                }
                Err(_) => rep.count("twins.aborted_by_panic", 1),
            }
            rep.evaluations += 1000;
        }
        rep
    })
}

pub fn ribbon_replay(t: &crate::replay::Text, prop: &str, rep: &mut Report) -> Result<Option<Violation>, String> {
    let h = ribbon::History::parse(t)?;
    let seed: u64 = t.get("twin_seed")?.parse().map_err(|e| format!("twin_seed: {}", e))?;
    rep.evaluations += 1;
    match ribbon_twin(&h, seed, prop) {
        Ok(Some((i, what))) => Ok(Some(viol(prop, "getter-not-pure", format!("outputs depend on when they are read (op #{}): {}", i, what), t.to_text()))),
        _ => Ok(None),
    }
}

// ------------------------------------------------------------------------------------------------ ADSR

fn adsr_twin(h: &adsr::History, seed: u64) -> Result<Option<(usize, String)>, String> {
    guard(|| {
        let mut a = Adsr::new(h.fs);
        let mut b = Adsr::new(h.fs);
        let mut r = Rng::new(seed);
        let n_ops = h.ops.len();
        for (i, op) in h.ops.iter().enumerate() {
            let ticks = match op {
                adsr::Op::Tick(n) => (*n).min(5_000),
                _ => 0,
            };
            match op {
                adsr::Op::GateOn => {
                    a.gate_on();
                    b.gate_on();
                }
                adsr::Op::GateOff => {
                    a.gate_off();
                    b.gate_off();
                }
                adsr::Op::Attack(x) => {
                    a.set_input(Input::Attack((*x).into()));
                    b.set_input(Input::Attack((*x).into()));
                }
                adsr::Op::Decay(x) => {
                    a.set_input(Input::Decay((*x).into()));
                    b.set_input(Input::Decay((*x).into()));
                }
                adsr::Op::Release(x) => {
                    a.set_input(Input::Release((*x).into()));
                    b.set_input(Input::Release((*x).into()));
                }
                adsr::Op::Sustain(x) => {
                    a.set_input(Input::Sustain((*x).into()));
                    b.set_input(Input::Sustain((*x).into()));
                }
                adsr::Op::SetStorm(_, _, _, _) | adsr::Op::Tick(_) => {}
            }
            let steps = ticks.max(1);
            for k in 0..steps {
                if ticks > 0 {
                    a.tick();
                    b.tick();
                }
                let va = a.value();
                let _ = (a.verif_state(), a.verif_phase_bits());
                if r.chance(0.02) || (i + 1 == n_ops && k + 1 == steps) {
                    let vb = b.value();
                    if va.to_bits() != vb.to_bits() || a.verif_state() != b.verif_state() || a.verif_phase_bits() != b.verif_phase_bits() {
                        return Some((i, format!("tick {} of this op: read after every call: {}; read only now: {}", k + 1, va, vb)));
                    }
                }
            }
        }
        None
    })
}

pub fn adsr_transparency(ctx: &Ctx, prop: &str) -> Report {
    let small = ctx.tier == Tier::Small;
    let n = ctx.budget(4, 3_000, 100_000) as usize;
    let shards = if small { 1 } else { 64 };
    par_shards(ctx, shards, |s| {
        let mut rep = Report::new();
        let mut r = Rng::derive(ctx.seed, "twins.adsr", s as u64);
        for _ in 0..(n + shards - 1) / shards {
            let fs = adsr::pick_fs(&mut r);
            let h = adsr::gen_storm(&mut r, fs, if small { 20.0 } else { 300.0 }, if small { 6 } else { 25 }, 0.4);
            let seed = r.next_u64();
            rep.count("twins.adsr_histories", 1);
            rep.evaluations += 500;
            match adsr_twin(&h, seed) {
                Ok(None) => {}
                Ok(Some((i, what))) => {
                    let mut t = crate::replay::Text::parse(&h.to_text(prop, i, None)).unwrap();
                    t.head.retain(|(k, _)| k != "module");
                    t.set("module", "twin-adsr").set("twin_seed", seed.to_string());
                    rep.violate(viol(prop, "getter-not-pure", format!("Adsr::value() depends on when it is read (op #{}): {}", i, what), t.to_text()));
                }
                Err(_) => rep.count("twins.aborted_by_panic", 1),
            }
        }
        rep
    })
}

pub fn adsr_replay(t: &crate::replay::Text, prop: &str, rep: &mut Report) -> Result<Option<Violation>, String> {
    let h = adsr::History::parse(t)?;
    let seed: u64 = t.get("twin_seed")?.parse().map_err(|e| format!("twin_seed: {}", e))?;
    rep.evaluations += 1;
    match adsr_twin(&h, seed) {
        Ok(Some((i, what))) => Ok(Some(viol(prop, "getter-not-pure", format!("Adsr::value() depends on when it is read (op #{}): {}", i, what), t.to_text()))),
        _ => Ok(None),
    }
}

// ------------------------------------------------------------------------------------------------ LFO

const SHAPES: [Waveshape; 5] = [Waveshape::Sine, Waveshape::Triangle, Waveshape::UpSaw, Waveshape::DownSaw, Waveshape::Square];

fn lfo_twin(h: &lfo::History, seed: u64) -> Result<Option<(usize, String)>, String> {
    guard(|| {
        let mut a = Lfo::new(h.fs);
        let mut b = Lfo::new(h.fs);
        let mut r = Rng::new(seed);
        let n_ops = h.ops.len();
        for (i, op) in h.ops.iter().enumerate() {
            let ticks = match op {
                lfo::Op::Tick(n) => (*n).min(3_000),
                _ => 0,
            };
            match op {
                lfo::Op::Reset => {
                    a.reset();
                    b.reset();
                }
                lfo::Op::SetPhase(p) => {
                    a.set_phase(*p);
                    b.set_phase(*p);
                }
                lfo::Op::SetFreq(x) => {
                    a.set_frequency(*x);
                    b.set_frequency(*x);
                }
                lfo::Op::Tick(_) | lfo::Op::Read(_) | lfo::Op::LandOn(_) => {}
            }
            let steps = ticks.max(1);
            for k in 0..steps {
                if ticks > 0 {
                    a.tick();
                    b.tick();
                }
                let va: Vec<u32> = SHAPES.iter().map(|s| a.get(*s).to_bits()).collect();
                if r.chance(0.02) || (i + 1 == n_ops && k + 1 == steps) {
                    // read only one or two shapes on the quiet twin, in an arbitrary order
                    let first = r.usize_below(5);
                    let vb1 = b.get(SHAPES[first]).to_bits();
                    if vb1 != va[first] {
                        return Some((i, format!("tick {} of this op: shape #{} read after every call {} vs read only now {}", k + 1, first, f32::from_bits(va[first]), f32::from_bits(vb1))));
                    }
                }
            }
        }
        None
    })
}

pub fn lfo_transparency(ctx: &Ctx, prop: &str) -> Report {
    let small = ctx.tier == Tier::Small;
    let n = ctx.budget(4, 3_000, 100_000) as usize;
    let shards = if small { 1 } else { 64 };
    par_shards(ctx, shards, |s| {
        let mut rep = Report::new();
        let mut r = Rng::derive(ctx.seed, "twins.lfo", s as u64);
        for _ in 0..(n + shards - 1) / shards {
            let h = lfo::random_history(&mut r, if small { 30 } else { 1_000 }, true);
            let seed = r.next_u64();
            rep.count("twins.lfo_histories", 1);
            rep.evaluations += 500;
            match lfo_twin(&h, seed) {
                Ok(None) => {}
                Ok(Some((i, what))) => {
                    let mut t = crate::replay::Text::parse(&h.to_text(prop, i, None)).unwrap();
                    t.head.retain(|(k, _)| k != "module");
                    t.set("module", "twin-lfo").set("twin_seed", seed.to_string());
                    rep.violate(viol(prop, "getter-not-pure", format!("Lfo::get() depends on when / in which order it is read (op #{}): {}", i, what), t.to_text()));
                }
                Err(_) => rep.count("twins.aborted_by_panic", 1),
            }
        }
        rep
    })
}

pub fn lfo_replay(t: &crate::replay::Text, prop: &str, rep: &mut Report) -> Result<Option<Violation>, String> {
    let h = lfo::History::parse(t)?;
    let seed: u64 = t.get("twin_seed")?.parse().map_err(|e| format!("twin_seed: {}", e))?;
    rep.evaluations += 1;
    match lfo_twin(&h, seed) {
        Ok(Some((i, what))) => Ok(Some(viol(prop, "getter-not-pure", format!("Lfo::get() depends on when it is read (op #{}): {}", i, what), t.to_text()))),
        _ => Ok(None),
    }
}
