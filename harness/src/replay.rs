//! Replay files: plain text, `key=value` header lines, then `ops:` and one operation per line.
//! f32 arguments are written as their bit pattern so that a replay is exact; the human-readable value
//! follows as a comment.

#[derive(Clone, Debug, Default)]
pub struct Text {
    pub head: Vec<(String, String)>,
    pub ops: Vec<String>,
}

pub fn f(x: f32) -> String {
    format!("{:#010x}", x.to_bits())
}

pub fn pf(s: &str) -> Result<f32, String> {
    let t = s.trim();
    if let Some(h) = t.strip_prefix("0x") {
        u32::from_str_radix(h, 16).map(f32::from_bits).map_err(|e| format!("bad f32 bits '{}': {}", s, e))
    } else {
        t.parse::<f32>().map_err(|e| format!("bad f32 '{}': {}", s, e))
    }
}

pub fn pu(s: &str) -> Result<u64, String> {
    let t = s.trim();
    if let Some(h) = t.strip_prefix("0x") {
        u64::from_str_radix(h, 16).map_err(|e| format!("bad int '{}': {}", s, e))
    } else {
        t.parse::<u64>().map_err(|e| format!("bad int '{}': {}", s, e))
    }
}

impl Text {
    pub fn new() -> Self {
        Self::default()
    }
    pub fn set(&mut self, k: &str, v: impl Into<String>) -> &mut Self {
        self.head.push((k.to_string(), v.into()));
        self
    }
    pub fn get(&self, k: &str) -> Result<&str, String> {
        self.head
            .iter()
            .find(|(kk, _)| kk == k)
            .map(|(_, v)| v.as_str())
            .ok_or_else(|| format!("replay header '{}' missing", k))
    }
    pub fn get_opt(&self, k: &str) -> Option<&str> {
        self.head.iter().find(|(kk, _)| kk == k).map(|(_, v)| v.as_str())
    }
    pub fn to_text(&self) -> String {
        let mut s = String::new();
        for (k, v) in &self.head {
            s.push_str(k);
            s.push('=');
            s.push_str(v);
            s.push('\n');
        }
        s.push_str("ops:\n");
        for o in &self.ops {
            s.push_str(o);
            s.push('\n');
        }
        s
    }
    pub fn parse(text: &str) -> Result<Self, String> {
        let mut t = Text::new();
        let mut in_ops = false;
        for raw in text.lines() {
            let line = raw.split('#').next().unwrap_or("").trim();
            if line.is_empty() {
                continue;
            }
            if !in_ops {
                if line == "ops:" {
                    in_ops = true;
                    continue;
                }
                let (k, v) = line.split_once('=').ok_or_else(|| format!("bad header line '{}'", raw))?;
                t.head.push((k.trim().to_string(), v.trim().to_string()));
            } else {
                t.ops.push(line.to_string());
            }
        }
        Ok(t)
    }
}
