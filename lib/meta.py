"""Per-property metadata used by ./check for the evidence files, and the extra engines per tier."""

ISOLATION = " Instance isolation: two histories run alone and then interleaved call by call on two instances side by side must report bit-identical observations."
COMMON = [
    "the harness binary is built from /repo's working tree by cargo (path dependency, feature verif-hooks) in profile `verif` = release + overflow-checks + debug-assertions",
    "f32 arithmetic follows IEEE-754 on x86-64 SSE (no fast-math); results are deterministic, so a replay file reproduces a history exactly",
    "only executions actually driven are decided: 'held' means held on the monitored executions listed under coverage",
]

LFO_RULE = ("exhaustive sweep of all 2^24 phase-counter values (increment 1, across the wrap), whole-cycle sweeps at 9 larger increments, "
            "directed set_phase/reset/set_frequency scenarios at 28 sample rates, closed-loop landings (the frequency is set from the counter read back so that the next tick lands exactly on 0, 2^24-1, the half cycle, table-cell boundaries and their neighbours), "
            "seeded random histories incl. frequency nudges of a few ulps, re-quantised frequencies and (C10/C12 only) frequencies above the sample rate; every tick reads all 5 waveshapes; C12 bounds each sine step by the smaller of the observed and the commanded phase step (by the commanded one alone when the counter cannot be read back); C10 also runs observation twins (getters read after every call on one instance, only at sparse checkpoints on the other: bit-identical there). "
            "distinct_nontrivial = distinct (sine-table cell, increment magnitude class) pairs observed")

META = {
    "C10": {"rule": LFO_RULE, "assumptions": COMMON + ["the phase counter is read back through UpSaw: k=(UpSaw+1)*2^23 must be an integer; C11 ties k to the commanded phase"]},
    "C11": {"rule": LFO_RULE, "assumptions": COMMON + ["a frequency must have been set before the first tick (power-on increment is 0)", "negative-phase invariance is checked on dyadic p with |p|<8192 where p and p-m are both exact f32"]},
    "C12": {"rule": LFO_RULE, "assumptions": COMMON + ["ulp in the sine bound is taken at magnitude 1 (2^-23)"]},
}

ADSR_RULE = ("(C01 also: observation twins - value() read after every call on one instance, only at sparse checkpoints on the other) directed scenarios (17 (fs,T) pairs incl. T*fs<=1, =1, just above 1; gate events at every offset class of every phase; sustain and times moved in mid-phase), "
             "seeded random histories (whole cycles, retrigger/release storms, parameter modulation, sub-sample phases, gate floods) at 32 standard and log-uniform sample rates, slow phases ticked through completely (up to 20 s at 192 kHz), "
             "long-count histories (7*10^4 gate cycles, 2^16 and 2^24 ticks on the plateaus) and write storms (2^8 ... 2^32 set_input writes between two ticks of a running phase); "
             "every tick is observed through value() and the verif-hooks accessors. distinct_nontrivial = distinct (event kind, phase before, phase after / table-cell octile, decade of T*fs, start-level octile) classes observed")
MIDI_RULE = ("byte-at-a-time histories on the real receiver compared after every byte with an independent MIDI 1.0 framer + receiver specification; observation twins (C04/C06/C18: all getters read after every byte on one instance, only at sparse checkpoints on the other - bit-identical at the checkpoints); "
             "distinct_nontrivial = distinct (reference decoder state x byte class), (message effect x held-count bucket x priority x retrigger) and (poll kind x latch x gate) classes observed")

META.update({
    "C01": {"rule": ADSR_RULE, "assumptions": COMMON + ["phase and counter position come from the read-only hooks Adsr::verif_state()/verif_phase_bits()", "the documented RC curves are the generator's formulas of non_rust_utils/lookup_table_gen.py evaluated in f64", "monotonicity allows 4 ulp (4.8e-7) of f32 rounding; the largest dip observed is reported under monitored_maxima"]},
    "C02": {"rule": ADSR_RULE, "assumptions": COMMON + ["phase read through Adsr::verif_state()", "per-tick progress x=1/(T*fs) is integrated as an interval [x(1-2^-22)-2^-24, x(1+2^-22)]: early = ended with upper bound < 1, late = not ended with lower bound >= 1", "all four inputs are set before the first gate event (power-on parameter values are not part of the property)"]},
    "C03": {"rule": ADSR_RULE, "assumptions": COMMON + ["slope bound 1.005*S*c*x*(1+2^-22)+|ds|+4ulp with S=1.81062 (attack), 4.07463 (decay/release), c the span of the segment, x the fraction of the phase one tick covers (the larger of what the configured time commands and what the phase counter did)"]},
    "C04": {"rule": MIDI_RULE + "; workload: note-on / note-off / velocity-0 / All Notes Off on the listened channel, pools of 1..128 notes, explicit and running status, priority and retrigger switched at random, at most 32 outstanding note-ons; a key held under melodies of 250-70000 notes; the 32-entry buffer filled with distinct / identical keys and re-struck; pattern-repeat storms of 2^8 ... 2^20 (thorough: 2^32) note pairs (also of incomplete, foreign-channel and real-time-only messages), also with a key struck just before the count is reached, every storm followed by two fresh keys of which the newer is released, and 2^8-d / 2^16-d pairs (d = 0..9) followed by a rolled chord released newest-first", "assumptions": COMMON + ["histories are cut before a 33rd outstanding note-on (the property is stated up to 32)", "CC 123 is All Notes Off for any value byte"]},
    "C05": {"rule": MIDI_RULE + "; workload: the C04 streams with edge polls interleaved (sparse at several rates, and strict = both edges after every message), note floods beyond 32 outstanding note-ons (observed-gate mode), poll-free bursts of 254-513 messages and pattern-repeat storms of 2^8 ... 2^20 (thorough: 2^32) messages between two polls", "assumptions": COMMON + ["edge getters are polled on implementation and reference at the same instant", "the edge getters are modelled as self-clearing latches: several unread edges of one kind merge into one true (what the crate documents and does), not as per-edge counters"]},
    "C06": {"rule": MIDI_RULE + "; workload: 24 well-formed base streams x every split point x 16 channels with real-time bytes inserted, random insertions, unstructured byte streams in four styles (uniform, status-heavy, data-heavy running status, own-channel with system bytes), universal SysEx messages with arbitrary parameter bytes and device ids, SysEx payloads of 127-600 bytes, runs of 23-1000 real-time bytes inside a message, RPN/NRPN/data-entry sequences, channel-mode controllers 120-127 followed by foreign-channel traffic, pattern-repeat storms", "assumptions": COMMON + ["pitch-bend scaling is taken from a table read from a fresh receiver (the scaling itself is judged by C18); framing decides which bytes form the value", "histories are cut before a 33rd outstanding note-on", "0xF9/0xFD are treated as real-time (transparent), 0xF4/0xF5 as system common (cancel running status)", "C06 judges framing, not the meaning of messages: the values restored by controller 121 are taken from the implementation (C18 judges them) and note_num() is not compared between a priority switch and the next note message that re-selects from held keys (C04 judges that)"]},
    "C18": {"rule": MIDI_RULE + "; workload: 16 channels x 128 controllers x 128 values (explicit + running status, listened + foreign channel, foreign-channel traffic after every controller number), all 16384 pitch-bend values ascending/descending, pitch-bend values in other orders on fresh receivers (MSB-only wheels, constant LSB, repeats, alternating extremes, random order), mode setters (priority / retrigger, each really changing the mode) dropped between arbitrary bytes, scaling tables, controllers interleaved with note traffic, RPN/NRPN/data-entry sequences, universal SysEx messages (master volume, GM on/off, ...) followed by a controller reset, other channels' messages with real-time bytes inside them right after own controller / pitch-bend messages, pattern-repeat storms", "assumptions": COMMON + ["power-on defaults are read from a freshly constructed receiver at run time"]},
})

QUANT_RULE = ("allow/forbid/convert histories on the real quantizer with a shadow scale: directed convert-forbid-convert of the same input in every octave and pitch class, slow ramps, "
              "sub-hysteresis noise around every chromatic boundary, jumps, random scale edits (incl. forbid-everything, duplicated note arguments, argument lists of 13-50 entries in which a note is named only late, forbid/allow of the held pitch class back to back), exact repeats of earlier inputs and inputs a few ulps away from them, inputs in and around [0,10] V incl. NaN/inf, 7*10^4-conversion runs and edit storms of 2^8 ... 2^20 (thorough: 2^31, 2^32) edit calls between two conversions; "
              "distinct_nontrivial = distinct (octave, path {kept by window, outside window, cached note forbidden, no history}, pitch class, scale-size bucket) classes observed")
GLIDE_RULE = ("set_time/process histories on the real processor: clean steps over the (fs,t) plane (both signs, offsets; zero times of either sign), dead-band sequences (drift chains, flapping, jumps, around the band edge) with the pole estimated from the outputs after every call, "
              "and mixed piecewise-constant / noise inputs at signal scales from 1e-30 to 3e38 with set_time changes at arbitrary points incl. switches to <= 4/fs in mid-glide, A-B-A' schedules without a sample in between, glides frozen by feeding the output back, full-scale swings, (C13, C17) holds at +-f32::MAX and 1 ulp, 8 ulps, 0.08 %, 3 % below it over 4 rates x 6 times followed by ordinary levels (known finding F11: the state overflows there), 7*10^4 set_time calls; distinct_nontrivial = distinct (decade of t*fs, changed-mid-glide?, specified region?) and (plane cell) classes observed")
RIBBON_RULE = ("sample histories on real controllers (608 sample rates instantiated: every multiple of 500 Hz up to 286 kHz + audio rates + 16 rates just below a step of the capacity helper; quick: the 10 standard ones, all <= 20 kHz and 12 sampled others; thorough: all) and random resistor triples: presses of length L-2..L+2, 10L, taps shorter than L separated by 1..3 out-of-range samples, glitches, samples exactly on the boundary and 1-3 ulps below it, pull-ups from the divider resistance up to 10^12 Ohm, non-integer sample rates (buffer sized for the integer part), buffers rounded up to 64/256/1024/4096 slots, presses held at the top of the range at every selected rate, slides and noisy presses, one creeping press of 4*10^5 samples, controllers polled for 10^5 samples (idle and in contact) before presses of exactly L-1 and L samples, 7*10^4 presses, one contact of 2^24 (thorough: 2^31, 2^32) samples, "
               "edge polls strict (after every sample) and sparse, observation twins (getters read after every sample vs only at sparse checkpoints); distinct_nontrivial = distinct (event, rate, previous-run-length bucket, poll mode) and influence-probe (rate, region, wrapped?, noisy?) classes observed")

META.update({
    "C07": {"rule": QUANT_RULE, "assumptions": COMMON + ["the shadow scale is maintained from the allow/forbid calls issued (note arguments > 11 act as 11; a forbid that would empty the scale keeps the last note of its argument) and compared with is_allowed() after every edit"]},
    "C08": {"rule": "fresh real quantizer per conversion (scale set up by forbidding the complement, and by five other edit routes: forbid-everything fallback, one call per note, calls naming a note twice, up to three members too many forbidden and allowed again by one call naming each twice): all 4095 non-empty scales x {boundary grid of every half- and third-semitone point of 0..10 V +-{0,1,4,9,11,40} uV; special and out-of-range inputs incl. NaN/inf; a microvolt stride (quick: 997 uV seed-offset stride, thorough: every one of the 10,000,001 microvolt inputs)}; oracle = nearest allowed note in f64 with the one-semitone-below bucket rule and 10 uV tie band, plus monotonicity over rising inputs; the first conversion after every scale edit inside the convert/edit histories of C07/C09 is judged by the same oracle. distinct_nontrivial = distinct (scale, number of distinct notes reported) pairs",
            "assumptions": COMMON + ["candidate notes 0..131 (octave 10 complete)", "NaN may be treated as either end of the range"]},
    "C09": {"rule": QUANT_RULE, "assumptions": COMMON + ["outside the window the expected result is what a fresh instance of the real quantizer with the same scale reports (the history-free rule itself is judged by C08)", "inputs within 2 uV of a window edge may go either way"]},
    "C19": {"rule": QUANT_RULE, "assumptions": COMMON + ["'two f32 ulps' is taken at the magnitude of the largest of |input|, |stairstep|, |fraction|", "chromatic fraction range widened by 10 uV (integer microvolt note grid)"]},
    "C13": {"rule": GLIDE_RULE, "assumptions": COMMON + ["filter resolution res = 2*2^-23*M/(1-a) (M = largest |input| so far, a = pole of the time in effect), plus the decaying remainder of the previous setting's resolution after a set_time change", "for times below 100 samples the pole is only assumed to lie in [0, a(100/fs)]", "'settles' is decided as bounded progress: |e_n| <= |e_1|*a'^(n-1) + res with 1-a' = 0.78 (1-a) (the slowest cutoff C14 admits), and only an approach slower than that for the slowest time requested so far is a violation (which request is in effect is C14's dead-band clause)", "the first sample of a hold is exempt from the monotone clause (it still carries the previous input)", "every history starts with a set_time call; requests within 1e-6 of the dead-band edge make the time in effect unknown until a far jump"]},
    "C14": {"rule": GLIDE_RULE, "assumptions": COMMON + ["the pole is estimated over a window in which the error decays by about 30 %; any pole with 1-a within [0.80, 1.30] of the nominal one conforms (C14 pins the speed only through its two points); dead-band discrimination only where t <= 1 s and 100 <= t*fs <= 1e5", "t > 10 s is compared bit for bit with t = 10 s on twin processors"]},
    "C15": {"rule": RIBBON_RULE, "assumptions": COMMON + ["required run length L = capacity + max(floor(fs*1ms)-1, 0) (the value the repository's unit tests pin at 10 kHz: 179 no press, 180 press)", "generated samples keep 2e-5 away from the in-range boundary, except samples placed exactly on it (out of range) or 1-3 f32 ulps below it (in range) where the f32 and the real-number reading of the boundary agree", "finger_just_pressed()/finger_just_released() are modelled as self-clearing latches (several unread changes merge into one true), as the crate documents them", "'supported sample rates' = integer rates for which sample_rate_to_capacity() does not overflow (up to 286 kHz); 608 of them are instantiated; C15/C16 also use buffers rounded up to 64/256/1024/4096 slots (required run length computed from the actual capacity)"]},
    "C16": {"rule": RIBBON_RULE + "; influence probes: twin controllers fed identical two-press histories except one sample raised by 0.25*boundary, per region {earlier press, pre-window, window, discarded tail, settling}", "assumptions": COMMON + ["mean tolerance 4*capacity*2^-24 + 2 ulp (sequential f32 summation); exact window membership is decided by the influence probes (bit-identical / strictly larger)"]},
    "C17": {"rule": "union of the hostile generators of all six modules with every API call inside catch_unwind in a build with overflow-checks and debug-assertions on (crate and dependencies), an argument fuzzer over the documented ranges (any f32 bit pattern where the property allows it), and bounded-progress hang detection for the ADSR (a timed phase that has not ended after ten times the duration C02 allows); Miri runs the reduced workloads (--tier small). distinct_nontrivial = distinct observation classes of all module monitors + (module, non-finite-argument count, sample-rate decade) of the argument fuzzer",
            "assumptions": COMMON + ["hangs are decided on logical steps (C02 duration bound), wall-clock watchdogs only yield 'inconclusive'", "Miri findings count as violations; Miri cannot run the large sweeps"]},
    "C20": {"rule": "all 2^32 f32 bit patterns through both conversions, re-conversion of every read-back (idempotence, PartialEq of the newtypes), all 256 u8 note arguments (allow/forbid/is_allowed/u8::from, forbid-everything with the raw value last, twin quantizers edited through n and min(n,11)) and all 256 channel arguments (note-on heard on min(c,15) only), and twin envelopes configured with an out-of-range value vs. its bound driven by the same gate script (outputs compared bit for bit). distinct_nontrivial = 1024 f32 chunks (sign x exponent ranges) + differential classes",
            "assumptions": COMMON + ["the bounds are the property's numbers 0.001, 20, 0, 1 (not the crate's constants)", "-0.0 is accepted as 0"]},
})
for _p in ("C01", "C10", "C13", "C07", "C04", "C06", "C18", "C15", "C16"):
    META[_p] = dict(META[_p], rule=META[_p]["rule"] + ISOLATION)

from engines import miri, asan  # noqa: E402

# extra engines per property and tier (E1 always runs first)
_MIRI_SMOKE = miri({"quick": 1}, {"quick": 0.3}, timeout_s=900)
_MIRI_16 = miri({"thorough": 16}, {"thorough": 1.0}, timeout_s=3000)
_MIRI_4 = miri({"thorough": 4}, {"thorough": 1.0}, timeout_s=3000)
_ASAN = asan({"thorough": "quick"}, timeout_s=3000)
ENGINES = {
    "C17": {"quick": [_MIRI_SMOKE], "thorough": [_MIRI_16, _ASAN]},
    # the heapless containers (Vec<u8,32>, Vec<u32,3>, HistoryBuffer) are the only unsafe code reachable from the crate
    "C04": {"thorough": [_MIRI_4]},
    "C07": {"thorough": [_MIRI_4]},
    "C15": {"thorough": [_MIRI_4]},
    "C16": {"thorough": [_MIRI_4, _ASAN]},
}

HOOK_COMMITS = ["6c4927e"]
NOT_APPLICABLE = {}

def _t(engine, technique, level_text, level_note, design_ref):
    return {"engine": engine, "technique": technique, "level_text": level_text, "level_note": level_note, "design_ref": design_ref}

E1 = "E1 native monitored harness"
NOTE = "trusted: rustc/cargo, the harness' reference models (written from the property text), IEEE f32 on x86-64; only driven executions are decided"

MANIFEST_TEXT = {
    "C07": _t(E1, "runtime monitor with shadow scale over convert-edit-convert histories",
              "Every conversion of every history is checked against the scale in force (shadow mask cross-checked with is_allowed after every edit); directed convert - forbid that pitch class - convert the same input in every octave.", NOTE, "DESIGN.md 4 (C07)"),
    "C08": _t(E1, "exhaustive run-time sweep of scales x microvolt inputs against a nearest-note oracle",
              "Each conversion runs on a fresh real quantizer and is judged by an independent f64 nearest-note oracle; quick covers all 4095 scales x boundary grid + stride, thorough all 4095 x 10,000,001 inputs (exhaustive).", NOTE, "DESIGN.md 4 (C08)"),
    "C09": _t(E1, "history + executable model of the hysteresis window; differential against a fresh real instance outside it",
              "Input sequences (ramps, boundary noise, jumps, scale edits) are judged by a window model written from the property; outside the window the result must equal a fresh real quantizer's; derived monotone/no-chatter checks.", NOTE, "DESIGN.md 4 (C09)"),
    "C19": _t(E1, "runtime assertions on every returned Conversion record", "stairstep = note/12, stairstep + fraction reproduces the input within 2 ulp, fraction ranges on the chromatic and window paths; asserted on every conversion of every quantizer workload.", NOTE, "DESIGN.md 4 (C19)"),
    "C13": _t(E1, "runtime monitor on the output trajectory: range, monotone approach, sign constancy, RC-envelope convergence",
              "Every output of every history is checked against the span of the inputs, and every held input against monotone approach without crossing and convergence at least as fast as the RC law, with the filter's f32 resolution as tolerance; set_time changes anywhere incl. to <= 4/fs mid-glide.", NOTE, "DESIGN.md 4 (C13)"),
    "C14": _t(E1, "runtime monitor: step-response points + pole estimation from observed outputs after every set_time sequence",
              "Covered fraction at t/10 and t on clean steps over the (fs,t) plane; the pole in effect is estimated from the outputs after every set_time call and compared with the pole of the time that the dead-band rule says is in effect.", NOTE, "DESIGN.md 4 (C14)"),
    "C15": _t(E1, "history + executable model (unbroken-run counter, edge latches) compared after every sample",
              "finger_is_pressing and both edge getters are compared with a run-length reference after every sample over multi-press histories for 10 sample rates.", NOTE, "DESIGN.md 4 (C15)"),
    "C16": _t(E1 + " (+E2 Miri in thorough)", "reference mean over the capture window + perturbation (influence) probes on twin instances",
              "value() is compared with an f64 reference mean while pressing and must be bit-identical while not pressing; twin instances differing in one sample decide exact window membership (earlier press, pre-window, discarded tail: no influence; window: strictly increasing).", NOTE, "DESIGN.md 4 (C16)"),
    "C17": _t(E1 + " + E2 Miri + E3 ASan", "catch_unwind around every call in an overflow-checked build under hostile workloads; Miri/ASan on reduced workloads; bounded-progress hang monitor",
              "All module workloads plus an argument fuzzer over the documented ranges run with overflow checks and debug assertions live; a panic, a Miri diagnostic, an ASan report or an envelope exceeding its duration bound is a violation.", NOTE + "; Miri and ASan from the pre-installed nightly toolchain", "DESIGN.md 4 (C17), 5"),
    "C20": _t(E1, "exhaustive run-time enumeration of all 2^32 f32 bit patterns and all u8 arguments; differential twin envelopes",
              "Both float conversions are evaluated on every f32 bit pattern and judged against the property's bounds; every u8 note/channel argument is checked behaviourally; twin envelopes show an out-of-range value behaves exactly like its bound.", NOTE, "DESIGN.md 4 (C20)"),
    "C01": _t(E1, "runtime monitor (range/monotone/end-level/curve-fidelity assertions on hooked state) over directed + random gate/tick/set_input histories",
              "Every tick of every history is checked on the real Adsr: 0<=v<=1, monotone per phase, exact 1.0 / sustain / 0.0 at the phase ends, and |v - RC curve| <= 0.005 with the phase and counter position read through the hooks. Held on ~5*10^7 (quick) to ~10^10 (thorough) observed ticks covering every (phase x event) pair, start levels and T*fs from 0.1 to 3.84*10^6.",
              NOTE + "; hooks Adsr::verif_state/verif_phase_bits", "DESIGN.md 4 (C01)"),
    "C02": _t(E1, "online trace checker: reference phase state machine + interval integration of phase progress",
              "The hooked phase must equal an independent state machine after every call; phase ends are bracketed by an interval integration of 1/(T*fs) per tick (never early, late only by counter resolution), which also decides hangs on logical steps.",
              NOTE + "; hook Adsr::verif_state", "DESIGN.md 4 (C02)"),
    "C03": _t(E1, "runtime monitor on adjacent-tick differences against the active curve's slope bound",
              "For every pair of consecutive ticks |dv| is compared with the steepest slope of the active segment times the phase fraction per tick (+ sustain change); slow phases up to 20 s at 192 kHz are ticked through completely so a table-step staircase exceeds the bound by >10x.",
              NOTE + "; hook Adsr::verif_state", "DESIGN.md 4 (C03)"),
    "C04": _t(E1, "history + executable model: held-note list specification compared after every byte",
              "Message histories (presses/releases in every order, duplicates, strays, All Notes Off, priority/retrigger switches, 16 channels) are fed byte by byte to the real receiver; gate/note/velocity must equal an independent held-note specification after every byte.",
              NOTE, "DESIGN.md 4 (C04)"),
    "C05": _t(E1, "history + executable model of the two edge latches with polls interleaved at arbitrary positions",
              "Edge getters are polled at random and strict positions and compared with reference latches written from the property text; plus rising=>gate, falling=>!gate.",
              NOTE, "DESIGN.md 4 (C05)"),
    "C06": _t(E1, "differential monitor against an independent MIDI 1.0 framer after every byte; real-time insertion at every split point",
              "All 11 plain getters are compared with the reference after every byte of structured and unstructured streams; a real-time byte is inserted at every split point of 18 base streams on all 16 channels; panics are caught with debug assertions live.",
              NOTE, "DESIGN.md 4 (C06)"),
    "C18": _t(E1, "exhaustive run-time enumeration of the controller table and pitch-bend values under the reference receiver",
              "All 16x128x128 controller messages (listened and foreign channel) and all 16384 pitch-bend values per channel are sent to the real receiver and every getter compared with the reference; scaling endpoints exact, strictly increasing.",
              NOTE, "DESIGN.md 4 (C18)"),
    "C10": _t(E1, "runtime monitor over an exhaustive run-time sweep of all 2^24 phases + random histories",
              "Every one of the 2^24 reachable phase-counter values is visited on the real Lfo and all five shapes are compared with an independent closed-form oracle (exact for saws/square/triangle, 0.0125 for the sine); random tick/set_frequency/set_phase/reset histories reach the same phases by other routes. Exhaustive for the per-phase clauses.",
              NOTE, "DESIGN.md 4 (C10)"),
    "C11": _t(E1, "runtime monitor: phase read-back after every call vs commanded phase / frequency",
              "After every reset/set_phase/set_frequency/tick the counter is read back exactly and compared with the commanded phase or the f/fs advance interval; constant step while the frequency is unchanged over runs of up to 2*10^7 ticks.",
              NOTE, "DESIGN.md 4 (C11)"),
    "C12": _t(E1, "runtime monitor on adjacent-tick differences over all 2^24 adjacent phase pairs incl. the wrap",
              "Every adjacent pair of counter values (increment 1, including 2^24-1 -> 0) and whole cycles at larger increments are observed on the real Lfo; |dSine| and |dTriangle| are compared with the property's slope bounds.",
              NOTE, "DESIGN.md 4 (C12)"),
}
