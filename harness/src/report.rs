//! Result bookkeeping shared by all monitors: evaluation counts, observation classes, maxima of the
//! monitored quantities, sample histories and violations with their replay text.

use crate::json::J;
use std::cell::RefCell;
use std::collections::{BTreeMap, HashSet};
use std::hash::{Hash, Hasher};
use std::panic::{self, AssertUnwindSafe};

#[derive(Clone, Copy, Debug, PartialEq, Eq)]
pub enum Tier {
    Quick,
    Thorough,
    /// reduced op budgets, single thread: the same workloads and monitors under Miri / ASan
    Small,
}

#[derive(Clone, Debug)]
pub struct Ctx {
    pub tier: Tier,
    pub seed: u64,
    pub threads: usize,
    /// multiplies random-stage budgets (thorough sweeps started from `vp run`)
    pub scale: f64,
}

impl Ctx {
    /// pick a budget by tier
    pub fn budget(&self, small: u64, quick: u64, thorough: u64) -> u64 {
        let b = match self.tier {
            Tier::Small => small,
            Tier::Quick => quick,
            Tier::Thorough => thorough,
        };
        ((b as f64) * self.scale).max(1.0) as u64
    }
}

#[derive(Clone, Debug)]
pub struct Violation {
    /// the clause of the property that was violated (stable, short)
    pub clause: String,
    /// clause + the parameters that identify the failing input class; known findings match on this
    pub signature: String,
    pub message: String,
    /// self-contained replay text (`run <id> --replay <file>` re-executes it)
    pub replay: String,
}

#[derive(Default, Clone, Debug)]
pub struct Report {
    pub evaluations: u64,
    pub counters: BTreeMap<String, u64>,
    pub classes: HashSet<u64>,
    pub maxima: BTreeMap<String, f64>,
    pub samples: Vec<String>,
    pub violations: Vec<Violation>,
    pub violation_count: u64,
    pub floors: Vec<(String, u64)>,
    pub stages: Vec<(String, f64, u64)>,
    pub notes: Vec<String>,
    pub exhaustive: Option<String>,
}

pub const MAX_KEPT_VIOLATIONS: usize = 40;
pub const MAX_SAMPLES: usize = 6;

impl Report {
    pub fn new() -> Self {
        Self::default()
    }
    #[inline]
    pub fn count(&mut self, name: &str, n: u64) {
        if let Some(c) = self.counters.get_mut(name) {
            *c += n;
        } else {
            self.counters.insert(name.to_string(), n);
        }
    }
    #[inline]
    pub fn class<K: Hash>(&mut self, key: K) {
        let mut h = std::collections::hash_map::DefaultHasher::new();
        key.hash(&mut h);
        self.classes.insert(h.finish());
    }
    #[inline]
    pub fn max(&mut self, name: &str, v: f64) {
        if let Some(c) = self.maxima.get_mut(name) {
            if v > *c {
                *c = v;
            }
        } else {
            self.maxima.insert(name.to_string(), v);
        }
    }
    pub fn floor(&mut self, name: &str, need: u64) {
        if !self.floors.iter().any(|(n, _)| n == name) {
            self.floors.push((name.to_string(), need));
        }
    }
    pub fn sample(&mut self, s: String) {
        if self.samples.len() < MAX_SAMPLES {
            self.samples.push(s);
        }
    }
    pub fn violate(&mut self, v: Violation) {
        self.violation_count += 1;
        if self.violations.iter().any(|x| x.signature == v.signature) {
            return;
        }
        if self.violations.len() < MAX_KEPT_VIOLATIONS {
            self.violations.push(v);
        }
    }
    pub fn merge(&mut self, o: Report) {
        self.evaluations += o.evaluations;
        for (k, v) in o.counters {
            *self.counters.entry(k).or_insert(0) += v;
        }
        self.classes.extend(o.classes);
        for (k, v) in o.maxima {
            self.max(&k, v);
        }
        for s in o.samples {
            self.sample(s);
        }
        self.violation_count += o.violation_count;
        for v in o.violations {
            self.violation_count -= 1;
            self.violate(v);
        }
        for (n, need) in o.floors {
            self.floor(&n, need);
        }
        self.stages.extend(o.stages);
        self.notes.extend(o.notes);
        if self.exhaustive.is_none() {
            self.exhaustive = o.exhaustive;
        }
    }

    pub fn to_json(&self, property: &str, ctx: &Ctx, wall_s: f64, replay_files: &[String]) -> J {
        let floors: Vec<J> = self
            .floors
            .iter()
            .map(|(n, need)| {
                let got = *self.counters.get(n).unwrap_or(&0);
                J::obj(vec![
                    ("name", J::s(n.clone())),
                    ("need", J::UInt(*need)),
                    ("got", J::UInt(got)),
                    ("ok", J::Bool(got >= *need)),
                ])
            })
            .collect();
        let viol: Vec<J> = self
            .violations
            .iter()
            .zip(replay_files.iter())
            .map(|(v, f)| {
                J::obj(vec![
                    ("clause", J::s(v.clause.clone())),
                    ("signature", J::s(v.signature.clone())),
                    ("message", J::s(v.message.clone())),
                    ("replay", J::s(f.clone())),
                ])
            })
            .collect();
        J::obj(vec![
            ("property", J::s(property)),
            (
                "tier",
                J::s(match ctx.tier {
                    Tier::Quick => "quick",
                    Tier::Thorough => "thorough",
                    Tier::Small => "small",
                }),
            ),
            ("seed", J::UInt(ctx.seed)),
            ("threads", J::UInt(ctx.threads as u64)),
            ("wall_s", J::Num(wall_s)),
            ("evaluations", J::UInt(self.evaluations)),
            ("distinct_classes", J::UInt(self.classes.len() as u64)),
            (
                "counters",
                J::Obj(self.counters.iter().map(|(k, v)| (k.clone(), J::UInt(*v))).collect()),
            ),
            (
                "maxima",
                J::Obj(self.maxima.iter().map(|(k, v)| (k.clone(), J::Num(*v))).collect()),
            ),
            ("floors", J::Arr(floors)),
            ("samples", J::Arr(self.samples.iter().map(|s| J::s(s.clone())).collect())),
            ("violation_count", J::UInt(self.violation_count)),
            ("violations", J::Arr(viol)),
            (
                "stages",
                J::Arr(
                    self.stages
                        .iter()
                        .map(|(n, w, e)| {
                            J::obj(vec![
                                ("name", J::s(n.clone())),
                                ("wall_s", J::Num(*w)),
                                ("evaluations", J::UInt(*e)),
                            ])
                        })
                        .collect(),
                ),
            ),
            ("notes", J::Arr(self.notes.iter().map(|s| J::s(s.clone())).collect())),
            (
                "exhaustive",
                match &self.exhaustive {
                    Some(s) => J::s(s.clone()),
                    None => J::Null,
                },
            ),
        ])
    }
}

thread_local! {
    static LAST_PANIC: RefCell<Option<String>> = const { RefCell::new(None) };
}

/// install a silent panic hook that records "<location>: <message>" per thread
pub fn install_panic_hook() {
    panic::set_hook(Box::new(|info| {
        let loc = info
            .location()
            .map(|l| {
                let f = l.file();
                // keep the path from the crate directory on: stable across checkouts
                let short = f.rsplit("/registry/src/").next().unwrap_or(f);
                let short = short.split_once('/').map(|(a, b)| if a.starts_with("index.") { b } else { short }).unwrap_or(short);
                format!("{}:{}", short, l.line())
            })
            .unwrap_or_else(|| "?".into());
        let msg = if let Some(s) = info.payload().downcast_ref::<&str>() {
            s.to_string()
        } else if let Some(s) = info.payload().downcast_ref::<String>() {
            s.clone()
        } else {
            "<non-string panic>".to_string()
        };
        LAST_PANIC.with(|p| *p.borrow_mut() = Some(format!("{}: {}", loc, msg)));
    }));
}

/// run `f`, turning an unwinding panic into `Err("<location>: <message>")`
pub fn guard<T>(f: impl FnOnce() -> T) -> Result<T, String> {
    match panic::catch_unwind(AssertUnwindSafe(f)) {
        Ok(v) => Ok(v),
        Err(_) => Err(LAST_PANIC.with(|p| p.borrow_mut().take()).unwrap_or_else(|| "panic (no message)".into())),
    }
}

/// Fork `n` shards over the worker threads; each shard builds its own Report; merged in shard order.
pub fn par_shards(ctx: &Ctx, n: usize, f: impl Fn(usize) -> Report + Sync) -> Report {
    let mut out = Report::new();
    if ctx.threads <= 1 || n <= 1 {
        for i in 0..n {
            out.merge(f(i));
        }
        return out;
    }
    let next = std::sync::atomic::AtomicUsize::new(0);
    let results: std::sync::Mutex<Vec<(usize, Report)>> = std::sync::Mutex::new(Vec::new());
    std::thread::scope(|s| {
        for _ in 0..ctx.threads.min(n) {
            // generous stacks: instrumented builds (ASan) use far more stack than the optimised one
            std::thread::Builder::new().stack_size(64 << 20).spawn_scoped(s, || loop {
                let i = next.fetch_add(1, std::sync::atomic::Ordering::Relaxed);
                if i >= n {
                    break;
                }
                let r = f(i);
                results.lock().unwrap().push((i, r));
            })
            .expect("cannot spawn a worker thread");
        }
    });
    let mut v = results.into_inner().unwrap();
    v.sort_by_key(|(i, _)| *i);
    for (_, r) in v {
        out.merge(r);
    }
    out
}

/// f32 helpers used by several monitors
pub fn ulp32(x: f32) -> f64 {
    let a = x.abs();
    if !a.is_finite() {
        return f64::INFINITY;
    }
    let b = f32::from_bits(a.to_bits() + 1);
    (b as f64) - (a as f64)
}

pub fn fmt_f32(x: f32) -> String {
    format!("{:e}[{:#010x}]", x, x.to_bits())
}

/// Greedy delta-debugging over an op list: repeatedly drop chunks (halves, quarters, ... single ops)
/// while `still_fails` keeps returning true. Bounded by `max_tests` executions.
pub fn shrink_ops<T: Clone>(ops: &[T], max_tests: usize, still_fails: impl Fn(&[T]) -> bool) -> Vec<T> {
    let mut cur: Vec<T> = ops.to_vec();
    let mut tests = 0usize;
    let mut chunk = (cur.len() / 2).max(1);
    while chunk >= 1 && tests < max_tests {
        let mut i = 0usize;
        let mut removed_any = false;
        while i < cur.len() && tests < max_tests {
            let end = (i + chunk).min(cur.len());
            let mut cand = Vec::with_capacity(cur.len() - (end - i));
            cand.extend_from_slice(&cur[..i]);
            cand.extend_from_slice(&cur[end..]);
            tests += 1;
            if !cand.is_empty() && still_fails(&cand) {
                cur = cand;
                removed_any = true;
            } else {
                i = end;
            }
        }
        if chunk == 1 && !removed_any {
            break;
        }
        if !removed_any || chunk > 1 {
            chunk = if chunk == 1 { 1 } else { chunk / 2 };
        }
    }
    cur
}
