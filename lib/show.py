#!/usr/bin/env python3
import json,sys
r=json.load(open(sys.argv[1]))
print(r['property'], 'wall',round(r['wall_s'],2),'eval',r['evaluations'],'classes',r['distinct_classes'],'viol',r['violation_count'])
for v in r['violations'][:int(sys.argv[2]) if len(sys.argv)>2 else 8]: print('  ',v['signature'],'|',v['message'][:400],'|',v['replay'])
print('  maxima',json.dumps(r['maxima']))
bad=[(f['name'],f['got'],f['need']) for f in r['floors'] if not f['ok']]
print('  floors unmet',bad)
print('  stages',[(s['name'],round(s['wall_s'],2),s['evaluations']) for s in r['stages']])
if len(sys.argv)>3: print(json.dumps(r['counters'],indent=1))
