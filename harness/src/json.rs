//! Minimal JSON value + serialiser (no third-party crates are used by the harness).

#[derive(Clone, Debug)]
pub enum J {
    Null,
    Bool(bool),
    Int(i64),
    UInt(u64),
    Num(f64),
    Str(String),
    Arr(Vec<J>),
    Obj(Vec<(String, J)>),
}

impl J {
    pub fn s(x: impl Into<String>) -> J {
        J::Str(x.into())
    }
    pub fn obj(kv: Vec<(&str, J)>) -> J {
        J::Obj(kv.into_iter().map(|(k, v)| (k.to_string(), v)).collect())
    }
    pub fn write(&self, out: &mut String) {
        match self {
            J::Null => out.push_str("null"),
            J::Bool(b) => out.push_str(if *b { "true" } else { "false" }),
            J::Int(i) => out.push_str(&i.to_string()),
            J::UInt(u) => out.push_str(&u.to_string()),
            J::Num(f) => {
                if f.is_finite() {
                    let s = format!("{:e}", f);
                    // JSON accepts 1.5e-7, but not "inf"/"NaN"
                    out.push_str(&s);
                } else {
                    out.push('"');
                    out.push_str(&f.to_string());
                    out.push('"');
                }
            }
            J::Str(s) => {
                out.push('"');
                for c in s.chars() {
                    match c {
                        '"' => out.push_str("\\\""),
                        '\\' => out.push_str("\\\\"),
                        '\n' => out.push_str("\\n"),
                        '\r' => out.push_str("\\r"),
                        '\t' => out.push_str("\\t"),
                        c if (c as u32) < 0x20 => out.push_str(&format!("\\u{:04x}", c as u32)),
                        c => out.push(c),
                    }
                }
                out.push('"');
            }
            J::Arr(a) => {
                out.push('[');
                for (i, v) in a.iter().enumerate() {
                    if i > 0 {
                        out.push(',');
                    }
                    v.write(out);
                }
                out.push(']');
            }
            J::Obj(o) => {
                out.push('{');
                for (i, (k, v)) in o.iter().enumerate() {
                    if i > 0 {
                        out.push(',');
                    }
                    J::Str(k.clone()).write(out);
                    out.push(':');
                    v.write(out);
                }
                out.push('}');
            }
        }
    }
    pub fn to_string(&self) -> String {
        let mut s = String::new();
        self.write(&mut s);
        s
    }
}
