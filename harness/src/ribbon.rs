//! Ribbon controller: recorded sample histories and the monitors of
//!   C15  press detection (reference: length of the unbroken in-range run) and the two edge latches
//!   C16  position value (reference mean over the capture window + influence probes on twin instances)

use crate::replay::{f, pf, pu, Text};
use crate::report::{guard, par_shards, Ctx, Report, Tier, Violation};
use crate::rng::Rng;
use synth_utils::ribbon_controller::{sample_rate_to_capacity, RibbonController};

/// the ten rates every run covers, smallest to largest buffer
pub const RATES: [u32; 10] = [100, 250, 1000, 3000, 10_000, 22_050, 44_100, 48_000, 96_000, 192_000];
/// all instantiated sample rates (one const-generic instance each)
pub const ALL_RATES: [u32; 608] = [100, 125, 133, 199, 200, 250, 300, 333, 400, 466, 500, 600, 666, 700, 750, 800, 900, 999, 1000, 1200, 1499, 1500, 1999, 2000, 2500, 2999, 3000, 3500, 4000, 4500, 5000, 5500, 6000, 6500, 7000, 7500, 8000, 8500, 9000, 9500, 9999, 10000, 10500, 10999, 11000, 11025, 11500, 12000, 12345, 12500, 13000, 13500, 14000, 14500, 15000, 15500, 16000, 16500, 17000, 17500, 18000, 18500, 19000, 19500, 19999, 20000, 20500, 21000, 21500, 22000, 22050, 22500, 23000, 23500, 24000, 24500, 25000, 25500, 26000, 26500, 27000, 27500, 28000, 28500, 29000, 29500, 30000, 30500, 31000, 31250, 31500, 32000, 32500, 33000, 33500, 34000, 34500, 35000, 35500, 36000, 36500, 37000, 37500, 38000, 38500, 39000, 39500, 40000, 40500, 41000, 41500, 42000, 42500, 43000, 43500, 43999, 44000, 44100, 44500, 45000, 45500, 46000, 46500, 47000, 47500, 47999, 48000, 48500, 49000, 49500, 50000, 50500, 51000, 51500, 52000, 52500, 53000, 53500, 54000, 54500, 55000, 55500, 56000, 56500, 57000, 57500, 58000, 58500, 59000, 59500, 60000, 60500, 61000, 61500, 62000, 62500, 63000, 63500, 64000, 64500, 65000, 65500, 65536, 66000, 66500, 67000, 67500, 68000, 68500, 69000, 69500, 70000, 70500, 71000, 71500, 72000, 72500, 73000, 73500, 74000, 74500, 75000, 75500, 76000, 76500, 77000, 77500, 78000, 78500, 79000, 79500, 80000, 80500, 81000, 81500, 82000, 82500, 83000, 83500, 84000, 84500, 85000, 85500, 86000, 86500, 87000, 87500, 88000, 88200, 88500, 89000, 89500, 90000, 90500, 91000, 91500, 92000, 92500, 93000, 93500, 94000, 94500, 95000, 95500, 95999, 96000, 96500, 97000, 97500, 98000, 98500, 99000, 99500, 100000, 100500, 101000, 101500, 102000, 102500, 103000, 103500, 104000, 104500, 105000, 105500, 106000, 106500, 107000, 107500, 108000, 108500, 109000, 109500, 110000, 110500, 111000, 111500, 112000, 112500, 113000, 113500, 114000, 114500, 115000, 115500, 116000, 116500, 117000, 117500, 118000, 118500, 119000, 119500, 120000, 120500, 121000, 121500, 122000, 122500, 123000, 123500, 124000, 124500, 125000, 125500, 126000, 126500, 127000, 127500, 128000, 128500, 129000, 129500, 130000, 130500, 131000, 131500, 132000, 132500, 133000, 133500, 134000, 134500, 135000, 135500, 136000, 136500, 137000, 137500, 138000, 138500, 139000, 139500, 140000, 140500, 141000, 141500, 142000, 142500, 143000, 143500, 144000, 144500, 145000, 145500, 146000, 146500, 147000, 147500, 148000, 148500, 149000, 149500, 150000, 150500, 151000, 151500, 152000, 152500, 153000, 153500, 154000, 154500, 155000, 155500, 156000, 156500, 157000, 157500, 158000, 158500, 159000, 159500, 160000, 160500, 161000, 161500, 162000, 162500, 163000, 163500, 164000, 164500, 165000, 165500, 166000, 166500, 167000, 167500, 168000, 168500, 169000, 169500, 170000, 170500, 171000, 171500, 172000, 172500, 173000, 173500, 174000, 174500, 175000, 175500, 176000, 176400, 176500, 177000, 177500, 178000, 178500, 179000, 179500, 180000, 180500, 181000, 181500, 182000, 182500, 183000, 183500, 184000, 184500, 185000, 185500, 186000, 186500, 187000, 187500, 188000, 188500, 189000, 189500, 190000, 190500, 191000, 191500, 191999, 192000, 192500, 193000, 193500, 194000, 194500, 195000, 195500, 196000, 196500, 197000, 197500, 198000, 198500, 199000, 199500, 200000, 200500, 201000, 201500, 202000, 202500, 203000, 203500, 204000, 204500, 205000, 205500, 206000, 206500, 207000, 207500, 208000, 208500, 209000, 209500, 210000, 210500, 211000, 211500, 212000, 212500, 213000, 213500, 214000, 214500, 215000, 215500, 216000, 216500, 217000, 217500, 218000, 218500, 219000, 219500, 220000, 220500, 221000, 221500, 222000, 222500, 223000, 223500, 224000, 224500, 225000, 225500, 226000, 226500, 227000, 227500, 228000, 228500, 229000, 229500, 230000, 230500, 231000, 231500, 232000, 232500, 233000, 233500, 234000, 234500, 235000, 235500, 236000, 236500, 237000, 237500, 238000, 238500, 239000, 239500, 240000, 240500, 241000, 241500, 242000, 242500, 243000, 243500, 244000, 244500, 245000, 245500, 246000, 246500, 247000, 247500, 248000, 248500, 249000, 249500, 250000, 250500, 251000, 251500, 252000, 252500, 253000, 253500, 254000, 254500, 255000, 255500, 256000, 256500, 257000, 257500, 258000, 258500, 259000, 259500, 260000, 260500, 261000, 261500, 262000, 262500, 263000, 263500, 264000, 264500, 265000, 265500, 266000, 266500, 267000, 267500, 268000, 268500, 269000, 269500, 270000, 270500, 271000, 271500, 272000, 272500, 273000, 273500, 274000, 274500, 275000, 275500, 276000, 276500, 277000, 277500, 278000, 278500, 279000, 279500, 280000, 280500, 281000, 281500, 282000, 282500, 283000, 283500, 284000, 284500, 285000, 285500, 286000];

pub trait Rib {
    fn poll(&mut self, x: f32);
    fn value(&self) -> f32;
    fn pressing(&self) -> bool;
    fn just_pressed(&mut self) -> bool;
    fn just_released(&mut self) -> bool;
}

impl<const N: usize> Rib for RibbonController<N> {
    fn poll(&mut self, x: f32) {
        RibbonController::poll(self, x)
    }
    fn value(&self) -> f32 {
        RibbonController::value(self)
    }
    fn pressing(&self) -> bool {
        self.finger_is_pressing()
    }
    fn just_pressed(&mut self) -> bool {
        self.finger_just_pressed()
    }
    fn just_released(&mut self) -> bool {
        self.finger_just_released()
    }
}

/// one instantiation per call frame: with hundreds of arms constructing buffers of up to 19 kB in one function the
/// frame of `make` would grow to megabytes in builds that do not share stack slots (ASan, Miri)
#[inline(never)]
fn mk_one<const N: usize>(rate: u32, frac: f32, sp: f32, dr: f32, pu: f32) -> Box<dyn Rib> {
    // `frac` in [0,1): a non-integer sample rate uses the buffer the helper gives for its integer part
    Box::new(RibbonController::<N>::new(rate as f32 + frac, sp, dr, pu))
}

#[inline(never)]
fn mk_cap<const N: usize>(rate: f32, sp: f32, dr: f32, pu: f32) -> Box<dyn Rib> {
    Box::new(RibbonController::<N>::new(rate, sp, dr, pu))
}

pub const ROUND_CAPS: [u32; 4] = [64, 256, 1024, 4096];
/// rounded-up buffers are part of C15/C16 ("all supported ... buffer capacities"); C17 is stated for helper-sized
/// buffers only, so its workloads never use them
pub static ROUNDED_CAPS: std::sync::atomic::AtomicBool = std::sync::atomic::AtomicBool::new(false);

macro_rules! mk {
    ($rate:expr, $frac:expr, $sp:expr, $dr:expr, $pu:expr; $($r:literal),*) => {
        match $rate {
            $( $r => Some(mk_one::<{ sample_rate_to_capacity($r) }>($r, $frac, $sp, $dr, $pu)), )*
            _ => None,
        }
    };
}

pub fn make(rate: u32, softpot: f32, dropper: f32, pullup: f32) -> Option<Box<dyn Rib>> {
    make_frac(rate, 0.0, softpot, dropper, pullup)
}

pub fn make_frac(rate: u32, frac: f32, softpot: f32, dropper: f32, pullup: f32) -> Option<Box<dyn Rib>> {
    mk!(rate, frac, softpot, dropper, pullup; 100, 125, 133, 199, 200, 250, 300, 333, 400, 466, 500, 600, 666, 700, 750, 800, 900, 999, 1000, 1200, 1499, 1500, 1999, 2000, 2500, 2999, 3000, 3500, 4000, 4500, 5000, 5500, 6000, 6500, 7000, 7500, 8000, 8500, 9000, 9500, 9999, 10000, 10500, 10999, 11000, 11025, 11500, 12000, 12345, 12500, 13000, 13500, 14000, 14500, 15000, 15500, 16000, 16500, 17000, 17500, 18000, 18500, 19000, 19500, 19999, 20000, 20500, 21000, 21500, 22000, 22050, 22500, 23000, 23500, 24000, 24500, 25000, 25500, 26000, 26500, 27000, 27500, 28000, 28500, 29000, 29500, 30000, 30500, 31000, 31250, 31500, 32000, 32500, 33000, 33500, 34000, 34500, 35000, 35500, 36000, 36500, 37000, 37500, 38000, 38500, 39000, 39500, 40000, 40500, 41000, 41500, 42000, 42500, 43000, 43500, 43999, 44000, 44100, 44500, 45000, 45500, 46000, 46500, 47000, 47500, 47999, 48000, 48500, 49000, 49500, 50000, 50500, 51000, 51500, 52000, 52500, 53000, 53500, 54000, 54500, 55000, 55500, 56000, 56500, 57000, 57500, 58000, 58500, 59000, 59500, 60000, 60500, 61000, 61500, 62000, 62500, 63000, 63500, 64000, 64500, 65000, 65500, 65536, 66000, 66500, 67000, 67500, 68000, 68500, 69000, 69500, 70000, 70500, 71000, 71500, 72000, 72500, 73000, 73500, 74000, 74500, 75000, 75500, 76000, 76500, 77000, 77500, 78000, 78500, 79000, 79500, 80000, 80500, 81000, 81500, 82000, 82500, 83000, 83500, 84000, 84500, 85000, 85500, 86000, 86500, 87000, 87500, 88000, 88200, 88500, 89000, 89500, 90000, 90500, 91000, 91500, 92000, 92500, 93000, 93500, 94000, 94500, 95000, 95500, 95999, 96000, 96500, 97000, 97500, 98000, 98500, 99000, 99500, 100000, 100500, 101000, 101500, 102000, 102500, 103000, 103500, 104000, 104500, 105000, 105500, 106000, 106500, 107000, 107500, 108000, 108500, 109000, 109500, 110000, 110500, 111000, 111500, 112000, 112500, 113000, 113500, 114000, 114500, 115000, 115500, 116000, 116500, 117000, 117500, 118000, 118500, 119000, 119500, 120000, 120500, 121000, 121500, 122000, 122500, 123000, 123500, 124000, 124500, 125000, 125500, 126000, 126500, 127000, 127500, 128000, 128500, 129000, 129500, 130000, 130500, 131000, 131500, 132000, 132500, 133000, 133500, 134000, 134500, 135000, 135500, 136000, 136500, 137000, 137500, 138000, 138500, 139000, 139500, 140000, 140500, 141000, 141500, 142000, 142500, 143000, 143500, 144000, 144500, 145000, 145500, 146000, 146500, 147000, 147500, 148000, 148500, 149000, 149500, 150000, 150500, 151000, 151500, 152000, 152500, 153000, 153500, 154000, 154500, 155000, 155500, 156000, 156500, 157000, 157500, 158000, 158500, 159000, 159500, 160000, 160500, 161000, 161500, 162000, 162500, 163000, 163500, 164000, 164500, 165000, 165500, 166000, 166500, 167000, 167500, 168000, 168500, 169000, 169500, 170000, 170500, 171000, 171500, 172000, 172500, 173000, 173500, 174000, 174500, 175000, 175500, 176000, 176400, 176500, 177000, 177500, 178000, 178500, 179000, 179500, 180000, 180500, 181000, 181500, 182000, 182500, 183000, 183500, 184000, 184500, 185000, 185500, 186000, 186500, 187000, 187500, 188000, 188500, 189000, 189500, 190000, 190500, 191000, 191500, 191999, 192000, 192500, 193000, 193500, 194000, 194500, 195000, 195500, 196000, 196500, 197000, 197500, 198000, 198500, 199000, 199500, 200000, 200500, 201000, 201500, 202000, 202500, 203000, 203500, 204000, 204500, 205000, 205500, 206000, 206500, 207000, 207500, 208000, 208500, 209000, 209500, 210000, 210500, 211000, 211500, 212000, 212500, 213000, 213500, 214000, 214500, 215000, 215500, 216000, 216500, 217000, 217500, 218000, 218500, 219000, 219500, 220000, 220500, 221000, 221500, 222000, 222500, 223000, 223500, 224000, 224500, 225000, 225500, 226000, 226500, 227000, 227500, 228000, 228500, 229000, 229500, 230000, 230500, 231000, 231500, 232000, 232500, 233000, 233500, 234000, 234500, 235000, 235500, 236000, 236500, 237000, 237500, 238000, 238500, 239000, 239500, 240000, 240500, 241000, 241500, 242000, 242500, 243000, 243500, 244000, 244500, 245000, 245500, 246000, 246500, 247000, 247500, 248000, 248500, 249000, 249500, 250000, 250500, 251000, 251500, 252000, 252500, 253000, 253500, 254000, 254500, 255000, 255500, 256000, 256500, 257000, 257500, 258000, 258500, 259000, 259500, 260000, 260500, 261000, 261500, 262000, 262500, 263000, 263500, 264000, 264500, 265000, 265500, 266000, 266500, 267000, 267500, 268000, 268500, 269000, 269500, 270000, 270500, 271000, 271500, 272000, 272500, 273000, 273500, 274000, 274500, 275000, 275500, 276000, 276500, 277000, 277500, 278000, 278500, 279000, 279500, 280000, 280500, 281000, 281500, 282000, 282500, 283000, 283500, 284000, 284500, 285000, 285500, 286000)
}

#[derive(Clone, Copy, Debug)]
pub struct Cfg {
    pub rate: u32,
    pub softpot: f32,
    pub dropper: f32,
    pub pullup: f32,
    /// fractional part of the sample rate passed to the constructor (the buffer is sized for the integer part)
    pub frac: f32,
    /// buffer capacity if it is not the one `sample_rate_to_capacity` gives (0 = the helper's); only larger ones
    /// ("rounded up to a convenient size") are supported: a smaller buffer cannot hold the discarded tail
    pub cap: u32,
}

impl Cfg {
    pub fn capacity(&self) -> usize {
        if self.cap != 0 { self.cap as usize } else { sample_rate_to_capacity(self.rate) }
    }
    /// the real controller for this configuration
    pub fn build(&self) -> Option<Box<dyn Rib>> {
        let r = self.rate as f32 + self.frac;
        match self.cap {
            0 => make_frac(self.rate, self.frac, self.softpot, self.dropper, self.pullup),
            64 => Some(mk_cap::<64>(r, self.softpot, self.dropper, self.pullup)),
            256 => Some(mk_cap::<256>(r, self.softpot, self.dropper, self.pullup)),
            1024 => Some(mk_cap::<1024>(r, self.softpot, self.dropper, self.pullup)),
            4096 => Some(mk_cap::<4096>(r, self.softpot, self.dropper, self.pullup)),
            _ => None,
        }
    }
    /// settling samples: floor(fs * 1 ms); the first press needs capacity + max(ignore-1, 0) samples
    pub fn ignore(&self) -> usize {
        (self.rate as u64 * 1000 / 1_000_000) as usize
    }
    pub fn discard(&self) -> usize {
        (self.rate as u64 * 2000 / 1_000_000) as usize
    }
    pub fn run_len(&self) -> usize {
        self.capacity() + self.ignore().saturating_sub(1)
    }
    pub fn boundary(&self) -> f64 {
        1.0 - self.dropper as f64 / (self.dropper as f64 + self.softpot as f64)
    }
    pub fn k(&self) -> f64 {
        (self.softpot as f64 + self.dropper as f64) / self.pullup as f64
    }
}

#[derive(Clone, Debug, PartialEq)]
pub enum Op {
    /// poll(x) n times
    Poll(f32, u64),
    /// n samples uniform in [lo, hi] from a private generator
    Rand(u64, u64, f32, f32),
    ReadPressed,
    ReadReleased,
}

#[derive(Clone, Debug)]
pub struct History {
    pub cfg: Cfg,
    /// poll both edge getters after every sample
    pub strict: bool,
    pub ops: Vec<Op>,
}

impl History {
    pub fn to_text(&self, property: &str, upto_op: usize, n_in_last: Option<u64>) -> String {
        let mut t = Text::new();
        t.set("property", property)
            .set("module", "ribbon")
            .set("rate", self.cfg.rate.to_string())
            .set("softpot", format!("{}  # {}", f(self.cfg.softpot), self.cfg.softpot))
            .set("dropper", format!("{}  # {}", f(self.cfg.dropper), self.cfg.dropper))
            .set("pullup", format!("{}  # {}", f(self.cfg.pullup), self.cfg.pullup))
            .set("frac", format!("{}  # {}", f(self.cfg.frac), self.cfg.frac))
            .set("cap", self.cfg.cap.to_string())
            .set("strict", (self.strict as u8).to_string());
        for (i, op) in self.ops.iter().enumerate() {
            if i > upto_op {
                break;
            }
            let last = i == upto_op;
            t.ops.push(match op {
                Op::Poll(x, n) => format!("poll {} {}  # poll({}) x n", f(*x), if last { n_in_last.unwrap_or(*n) } else { *n }, x),
                Op::Rand(s, n, lo, hi) => format!("rand {} {} {} {}", s, if last { n_in_last.unwrap_or(*n) } else { *n }, f(*lo), f(*hi)),
                Op::ReadPressed => "read_just_pressed".into(),
                Op::ReadReleased => "read_just_released".into(),
            });
        }
        t.to_text()
    }
    pub fn parse(t: &Text) -> Result<Self, String> {
        let cfg = Cfg { rate: pu(t.get("rate")?)? as u32, softpot: pf(t.get("softpot")?)?, dropper: pf(t.get("dropper")?)?, pullup: pf(t.get("pullup")?)?, frac: t.get_opt("frac").map(pf).transpose()?.unwrap_or(0.0), cap: t.get_opt("cap").map(pu).transpose()?.unwrap_or(0) as u32 };
        let strict = pu(t.get("strict")?)? != 0;
        let mut ops = Vec::new();
        for l in &t.ops {
            let mut it = l.split_whitespace();
            match it.next().unwrap_or("") {
                "poll" => {
                    let x = pf(it.next().ok_or("arg")?)?;
                    ops.push(Op::Poll(x, pu(it.next().ok_or("arg")?)?));
                }
                "rand" => {
                    let s = pu(it.next().ok_or("arg")?)?;
                    let n = pu(it.next().ok_or("arg")?)?;
                    let lo = pf(it.next().ok_or("arg")?)?;
                    let hi = pf(it.next().ok_or("arg")?)?;
                    ops.push(Op::Rand(s, n, lo, hi));
                }
                "read_just_pressed" => ops.push(Op::ReadPressed),
                "read_just_released" => ops.push(Op::ReadReleased),
                x => return Err(format!("unknown ribbon op '{}'", x)),
            }
        }
        Ok(History { cfg, strict, ops })
    }
    pub fn brief(&self) -> String {
        let txt: Vec<String> = self.ops.iter().take(12).map(|o| format!("{:?}", o)).collect();
        format!("ribbon rate={} R=({}, {}, {}) strict={} ops=[{}{}]", self.cfg.rate, self.cfg.softpot, self.cfg.dropper, self.cfg.pullup, self.strict, txt.join(", "), if self.ops.len() > 12 { ", ..." } else { "" })
    }
}

/// Execute one history with the C15 / C16 monitors.
pub fn execute(h: &History, want: &str, rep: &mut Report) -> Option<Violation> {
    let cfg = h.cfg;
    let mk = |prop: &str, clause: &str, msg: String, i: usize, n: Option<u64>| -> Violation {
        Violation { clause: clause.to_string(), signature: format!("{}:{}", prop, clause), message: format!("{} [rate={} capacity={} op#{} {:?}{}]", msg, cfg.rate, cfg.capacity(), i, h.ops[i.min(h.ops.len().saturating_sub(1))], n.map(|t| format!(" sample {}", t)).unwrap_or_default()), replay: h.to_text(prop, i, n) }
    };
    let mut n_eval = 0u64;
    macro_rules! call {
        ($e:expr, $i:expr, $n:expr) => {
            match guard(|| $e) {
                Ok(v) => v,
                Err(p) => {
                    rep.evaluations += n_eval;
                    let mut v = mk(want, "panic", format!("panicked: {}", p), $i, $n);
                    v.signature = format!("{}:panic:{}", want, p);
                    return Some(v);
                }
            }
        };
    }
    macro_rules! fail {
        ($prop:expr, $clause:expr, $msg:expr, $i:expr, $n:expr) => {
            if want == $prop || want == "ALL" {
                rep.evaluations += n_eval;
                return Some(mk($prop, $clause, $msg, $i, $n));
            }
        };
    }
    let mut rib = match call!(cfg.build(), 0, None) {
        Some(r) => r,
        None => return None,
    };
    let cap = cfg.capacity();
    let l_need = cfg.run_len() as u64;
    let discard = cfg.discard();
    let b = cfg.boundary();
    let kk = cfg.k();
    let g = |m: f64| m - (m - m * m) * kk;
    // reference state
    let mut run: u64 = 0;
    let mut prev_run_len: u64 = 0; // length of the previous (ended) run, for the classes
    let mut pressing = false;
    let (mut lp, mut lr) = (false, false); // reference edge latches
    let mut window: std::collections::VecDeque<f32> = std::collections::VecDeque::with_capacity(cap + 1);
    let mut last_value_bits: Option<u32> = None;
    let mut max_val_err = 0.0f64;
    let (mut c_press, mut c_release, mut c_short_tap, mut c_second_after_short, mut c_glitch, mut c_exact) = (0u64, 0u64, 0u64, 0u64, 0u64, 0u64);
    let (mut c_rp, mut c_rr) = ([0u64; 2], [0u64; 2]);
    let mut c_value_checks = 0u64;
    let mut c_retained = 0u64;
    let tol_val = 4.0 * cap as f64 * (1.0 / 16_777_216.0) + 2.4e-7;

    for (i, op) in h.ops.iter().enumerate() {
        match op {
            Op::ReadPressed | Op::ReadReleased => {
                let pressed = matches!(op, Op::ReadPressed);
                let got = if pressed { call!(rib.just_pressed(), i, None) } else { call!(rib.just_released(), i, None) };
                n_eval += 1;
                let wantv = if pressed { std::mem::replace(&mut lp, false) } else { std::mem::replace(&mut lr, false) };
                if pressed {
                    c_rp[wantv as usize] += 1;
                } else {
                    c_rr[wantv as usize] += 1;
                }
                if got != wantv {
                    fail!("C15", if pressed { "just_pressed" } else { "just_released" }, format!("{}() returned {} but finger_is_pressing() has {} in that direction since the last read", if pressed { "finger_just_pressed" } else { "finger_just_released" }, got, if wantv { "changed" } else { "not changed" }), i, None);
                }
            }
            Op::Poll(_, _) | Op::Rand(_, _, _, _) => {
                let n = match op {
                    Op::Poll(_, n) => *n,
                    Op::Rand(_, n, _, _) => *n,
                    _ => unreachable!(),
                };
                let mut nr = if let Op::Rand(s, _, _, _) = op { Some(Rng::new(*s)) } else { None };
                // a very long run of one constant in-range sample: once the capture window is full of it the
                // reference is at a fixed point, so the middle part is fed to the real controller only
                let ff_head = 2 * cap as u64 + l_need + 100;
                let ff_tail = cap as u64 + 50;
                let fast_forward = matches!(op, Op::Poll(_, _)) && n > 4 * (ff_head + ff_tail) && n > 2_000_000;
                let mut k = 0u64;
                while k < n {
                    k += 1;
                    if fast_forward && k == ff_head + 1 {
                        if let Op::Poll(x, _) = op {
                            let skip = n - ff_head - ff_tail;
                            let xx = *x;
                            if ((xx as f64) < b) == pressing || !pressing {
                                call!(
                                    {
                                        for _ in 0..skip {
                                            rib.poll(xx);
                                        }
                                    },
                                    i,
                                    Some(k)
                                );
                                n_eval += skip;
                                if (xx as f64) < b {
                                    run += skip;
                                }
                                rep.count("ribbon.fast_forwarded_polls", skip);
                                k += skip;
                            }
                        }
                    }
                    let x: f32 = match op {
                        Op::Poll(x, _) => *x,
                        Op::Rand(_, _, lo, hi) => nr.as_mut().unwrap().uniform(*lo as f64, *hi as f64) as f32,
                        _ => unreachable!(),
                    };
                    call!(rib.poll(x), i, Some(k));
                    n_eval += 1;
                    let in_range = (x as f64) < b;
                    let was = pressing;
                    if in_range {
                        run += 1;
                        window.push_back(x);
                        if window.len() > cap {
                            window.pop_front();
                        }
                        if run == l_need {
                            c_exact += 1;
                            if prev_run_len > 0 && prev_run_len < l_need {
                                c_second_after_short += 1;
                            }
                        }
                        pressing = run >= l_need;
                    } else {
                        if run > 0 {
                            if run < l_need {
                                c_short_tap += 1;
                                if run <= 2 {
                                    c_glitch += 1;
                                }
                            }
                            prev_run_len = run;
                        }
                        run = 0;
                        window.clear();
                        pressing = false;
                    }
                    if pressing && !was {
                        lp = true;
                        c_press += 1;
                        rep.class(("press", cfg.rate, (prev_run_len * 4 / l_need.max(1)).min(5), h.strict));
                    }
                    if !pressing && was {
                        lr = true;
                        c_release += 1;
                        rep.class(("release", cfg.rate, h.strict));
                    }
                    // ---------------- C15 ----------------
                    let got = call!(rib.pressing(), i, Some(k));
                    if got != pressing {
                        let why = if got {
                            format!("a press is reported although the unbroken in-range run is only {} samples long (needs {}; the previous run of {} samples ended with an out-of-range sample)", run, l_need, prev_run_len)
                        } else if in_range {
                            format!("no press is reported although the unbroken in-range run has reached {} samples (needs {})", run, l_need)
                        } else {
                            "the press is still reported after an out-of-range sample".to_string()
                        };
                        fail!("C15", if got { "press-too-early" } else if in_range { "press-missing" } else { "release-missing" }, why, i, Some(k));
                        // follow the implementation for the other property's sake
                    }
                    if h.strict {
                        let gp = call!(rib.just_pressed(), i, Some(k));
                        let gr = call!(rib.just_released(), i, Some(k));
                        let (wp, wr) = (std::mem::replace(&mut lp, false), std::mem::replace(&mut lr, false));
                        c_rp[wp as usize] += 1;
                        c_rr[wr as usize] += 1;
                        if gp != wp {
                            fail!("C15", "just_pressed", format!("finger_just_pressed() returned {} right after a sample on which finger_is_pressing() {}", gp, if wp { "became true" } else { "did not become true" }), i, Some(k));
                        }
                        if gr != wr {
                            fail!("C15", "just_released", format!("finger_just_released() returned {} right after a sample on which finger_is_pressing() {}", gr, if wr { "became false" } else { "did not become false" }), i, Some(k));
                        }
                    }
                    // ---------------- C16 ----------------
                    let val = call!(rib.value(), i, Some(k));
                    if got && pressing {
                        // mean over the capture window minus the newest `discard` samples
                        let take = cap - discard;
                        let mut sum = 0.0f64;
                        let (mut mn, mut mx) = (f64::INFINITY, f64::NEG_INFINITY);
                        for s in window.iter().take(take) {
                            let s = *s as f64;
                            sum += s;
                            mn = mn.min(s);
                            mx = mx.max(s);
                        }
                        let m = sum / take as f64;
                        let want_v = g(m) / b;
                        let err = (val as f64 - want_v).abs();
                        c_value_checks += 1;
                        if err > max_val_err {
                            max_val_err = err;
                        }
                        if !(val >= 0.0 && val <= 1.0) {
                            fail!("C16", "range", format!("value() = {} outside [0,1] while pressing", val), i, Some(k));
                        }
                        if !(err <= tol_val) {
                            fail!("C16", "mean", format!("value() = {} but the corrected mean of the capture window (oldest {} of the last {} samples of this press) is {:.7} (difference {:e} > {:e})", val, take, cap, want_v, err, tol_val), i, Some(k));
                        }
                        if !((val as f64) >= g(mn) / b - tol_val && (val as f64) <= g(mx) / b + tol_val) {
                            fail!("C16", "between-min-max", format!("value() = {} is not between the corrected minimum {:.7} and maximum {:.7} of the contributing samples", val, g(mn) / b, g(mx) / b), i, Some(k));
                        }
                        last_value_bits = Some(val.to_bits());
                    } else if !got && !pressing {
                        if let Some(bits) = last_value_bits {
                            c_retained += 1;
                            if val.to_bits() != bits {
                                fail!("C16", "not-retained", format!("value() changed from {} to {} while no press is reported", f32::from_bits(bits), val), i, Some(k));
                            }
                        }
                    }
                }
            }
        }
    }
    rep.evaluations += n_eval;
    rep.count("ribbon.presses", c_press);
    rep.count("ribbon.releases", c_release);
    rep.count("ribbon.taps_too_short", c_short_tap);
    rep.count("ribbon.glitches_1_2_samples", c_glitch);
    rep.count("ribbon.run_reached_exact_length", c_exact);
    rep.count("ribbon.press_after_too_short_tap", c_second_after_short);
    rep.count("ribbon.just_pressed.true", c_rp[1]);
    rep.count("ribbon.just_pressed.false", c_rp[0]);
    rep.count("ribbon.just_released.true", c_rr[1]);
    rep.count("ribbon.just_released.false", c_rr[0]);
    rep.count("ribbon.value_checks_while_pressing", c_value_checks);
    rep.count("ribbon.value_retained_checks", c_retained);
    rep.count(&format!("ribbon.histories.rate{}", cfg.rate), 1);
    rep.max("ribbon.max_value_error", max_val_err);
    None
}

pub fn run_and_record(h: &History, want: &str, rep: &mut Report, sample: bool) {
    if sample {
        rep.sample(h.brief());
    }
    if let Some(v) = execute(h, want, rep) {
        rep.violate(shrink(h, want, v));
    }
}

pub fn shrink(h: &History, want: &str, v: Violation) -> Violation {
    let base = match Text::parse(&v.replay).ok().and_then(|t| History::parse(&t).ok()) {
        Some(c) => c,
        None => return v,
    };
    let total: u64 = base.ops.iter().map(|o| match o {
        Op::Poll(_, n) | Op::Rand(_, n, _, _) => *n,
        _ => 1,
    }).sum();
    if base.ops.len() > 2000 || total * (h.cfg.capacity() as u64).max(50) > 30_000_000 {
        return v;
    }
    let sig = v.signature.clone();
    let fails = |ops: &[Op]| {
        let hh = History { cfg: h.cfg, strict: h.strict, ops: ops.to_vec() };
        let mut scratch = Report::new();
        matches!(execute(&hh, want, &mut scratch), Some(x) if x.signature == sig)
    };
    let ops = crate::report::shrink_ops(&base.ops, 300, fails);
    let hh = History { cfg: h.cfg, strict: h.strict, ops };
    let mut scratch = Report::new();
    match execute(&hh, want, &mut scratch) {
        Some(x) if x.signature == sig => x,
        _ => v,
    }
}

// ------------------------------------------------------------------------------------------------
// workloads

pub fn pick_cfg(r: &mut Rng, rates: &[u32]) -> Cfg {
    let rate = *r.pick(rates);
    if r.chance(0.3) {
        return Cfg { rate, softpot: 20e3, dropper: 820.0, pullup: 1e6, frac: 0.0, cap: 0 };
    }
    let softpot = r.log_uniform(5e3, 100e3) as f32;
    let dropper = (softpot as f64 * r.log_uniform(0.005, 0.2)) as f32;
    // pull-up >= divider resistance
    let pullup = ((softpot + dropper) as f64 * if r.chance(0.15) { 1.0 } else { r.log_uniform(1.0, 200.0) }) as f32;
    let pullup = if r.chance(0.08) { *r.pick(&[1e8f32, 1e9, 1e10]) } else { pullup.max(softpot + dropper) };
    // a non-integer sample rate (only where the f32 sum keeps the integer part: below 2^23)
    let frac = if r.chance(0.15) { *r.pick(&[0.4f32, 0.6, 0.999, 0.5, 0.001]) } else { 0.0 };
    // a buffer rounded up to a convenient size instead of the helper's exact one
    let cap = if r.chance(0.1) && ROUNDED_CAPS.load(std::sync::atomic::Ordering::Relaxed) { ROUND_CAPS.iter().copied().filter(|c| *c as usize > sample_rate_to_capacity(rate)).nth(r.below(2) as usize).unwrap_or(0) } else { 0 };
    Cfg { rate, softpot, dropper, pullup, frac, cap }
}

/// a sample level safely inside the in-range interval / safely out of range
fn in_level(r: &mut Rng, cfg: &Cfg) -> f32 {
    let b = cfg.boundary();
    if r.chance(0.06) {
        if let Some(x) = exact_boundary(cfg) {
            // a few ulps below the boundary: in range under both readings (the boundary as f32 is not below the exact one)
            return f32::from_bits(x.to_bits() - 1 - r.below(3) as u32);
        }
    }
    match r.below(8) {
        0 => 0.0,
        1 => (b - 2e-5) as f32,
        _ => (r.unit() * (b - 2e-5)) as f32,
    }
}
/// the boundary as an f32, when a sample exactly equal to it is out of range under both readings (the f32
/// comparison the API works in, and the real-number formula of the property): i.e. when it is not below the exact value
fn exact_boundary(cfg: &Cfg) -> Option<f32> {
    let b32 = 1.0f32 - (cfg.dropper / (cfg.dropper + cfg.softpot));
    if (b32 as f64) >= cfg.boundary() && ((b32 as f64) - cfg.boundary()).abs() < 1e-6 {
        Some(b32)
    } else {
        None
    }
}

fn out_level(r: &mut Rng, cfg: &Cfg) -> f32 {
    let b = cfg.boundary();
    if r.chance(0.15) {
        if let Some(x) = exact_boundary(cfg) {
            // a sample sitting exactly on the boundary is not below it: out of range
            return x;
        }
    }
    match r.below(4) {
        0 => 1.0,
        1 => (b + 2e-5) as f32,
        _ => (b + 2e-5 + r.unit() * (1.0 - b - 2e-5)) as f32,
    }
}

fn press(r: &mut Rng, cfg: &Cfg, len: u64, ops: &mut Vec<Op>) {
    if len == 0 {
        return;
    }
    match r.below(4) {
        0 => ops.push(Op::Poll(in_level(r, cfg), len)),
        1 => {
            // a slide: a few constant pieces
            let pieces = 1 + r.below(4);
            let mut left = len;
            for p in 0..pieces {
                let n = if p == pieces - 1 { left } else { r.below(left + 1) };
                if n > 0 {
                    ops.push(Op::Poll(in_level(r, cfg), n));
                }
                left -= n;
            }
        }
        _ => {
            let b = (cfg.boundary() - 2e-5) as f32;
            let (a, c) = (r.unit() as f32 * b, r.unit() as f32 * b);
            ops.push(Op::Rand(r.next_u64(), len, a.min(c), a.max(c)));
        }
    }
}

pub fn gen_history(r: &mut Rng, rates: &[u32], strict: bool, n_events: usize) -> History {
    let cfg = pick_cfg(r, rates);
    gen_history_cfg(r, cfg, strict, n_events)
}

pub fn gen_history_cfg(r: &mut Rng, cfg: Cfg, strict: bool, n_events: usize) -> History {
    let l = cfg.run_len() as u64;
    let mut ops = Vec::new();
    for _ in 0..n_events {
        let len = match r.below(12) {
            0 => l.saturating_sub(2),
            1 => l.saturating_sub(1),
            2 => l,
            3 => l + 1,
            4 => l + 2,
            5 => 10 * l,
            6 => 1,
            7 => 1 + r.below(2),
            8 => l + cfg.capacity() as u64 + r.below(l + 1),
            _ => 1 + r.below(l.max(2) - 1), // a tap shorter than the capture time
        };
        press(r, &cfg, len, &mut ops);
        if !strict && r.chance(0.4) {
            ops.push(if r.chance(0.5) { Op::ReadPressed } else { Op::ReadReleased });
        }
        let gap = match r.below(6) {
            0 | 1 | 2 => 1,
            3 => 2 + r.below(2),
            _ => 1 + r.below(l + 5),
        };
        ops.push(Op::Poll(out_level(r, &cfg), gap));
        if !strict && r.chance(0.4) {
            ops.push(if r.chance(0.5) { Op::ReadPressed } else { Op::ReadReleased });
        }
    }
    History { cfg, strict, ops }
}

/// trains of short taps whose lengths add up to far more than the capture time
pub fn gen_tap_train(r: &mut Rng, rates: &[u32], strict: bool) -> History {
    let cfg = pick_cfg(r, rates);
    gen_tap_train_cfg(r, cfg, strict)
}

pub fn gen_tap_train_cfg(r: &mut Rng, cfg: Cfg, strict: bool) -> History {
    let l = cfg.run_len() as u64;
    let mut ops = Vec::new();
    let taps = 3 + r.below(12);
    for _ in 0..taps {
        let len = if l <= 1 { 0 } else { 1 + r.below(l - 1) };
        press(r, &cfg, len, &mut ops);
        ops.push(Op::Poll(out_level(r, &cfg), 1 + r.below(3)));
    }
    // then a real press, a glitch and another press
    let extra = r.below(l + 1);
    press(r, &cfg, l + extra, &mut ops);
    ops.push(Op::Poll(out_level(r, &cfg), 1));
    press(r, &cfg, l + 3, &mut ops);
    ops.push(Op::Poll(out_level(r, &cfg), 5));
    History { cfg, strict, ops }
}

// ------------------------------------------------------------------------------------------------
// C16 influence probes on twin instances

#[derive(Clone, Copy, Debug, PartialEq, Eq, Hash)]
pub enum Region {
    EarlierPress,
    PreWindow,
    Window,
    DiscardedTail,
    Settling,
}

/// Feed `samples` to two fresh controllers, the second one with sample `j` raised by `delta`, and compare
/// value() after the last sample. Returns (pressing, value_base, value_perturbed).
pub fn twin(cfg: &Cfg, samples: &[f32], j: usize, delta: f32) -> Result<(bool, f32, f32), String> {
    guard(|| {
        let mut a = cfg.build().unwrap();
        let mut b = cfg.build().unwrap();
        for (i, s) in samples.iter().enumerate() {
            a.poll(*s);
            b.poll(if i == j { *s + delta } else { *s });
        }
        (a.pressing() && b.pressing(), a.value(), b.value())
    })
}

fn probe_text(cfg: &Cfg, samples: &[f32], j: usize, delta: f32, region: Region) -> String {
    let mut t = Text::new();
    t.set("property", "C16")
        .set("module", "ribbon-probe")
        .set("rate", cfg.rate.to_string())
        .set("softpot", f(cfg.softpot))
        .set("dropper", f(cfg.dropper))
        .set("pullup", f(cfg.pullup))
        .set("frac", f(cfg.frac))
        .set("cap", cfg.cap.to_string())
        .set("perturbed_index", j.to_string())
        .set("delta", f(delta))
        .set("region", format!("{:?}", region));
    // run-length encode
    let mut i = 0;
    while i < samples.len() {
        let mut n = 1;
        while i + n < samples.len() && samples[i + n].to_bits() == samples[i].to_bits() {
            n += 1;
        }
        t.ops.push(format!("poll {} {}", f(samples[i]), n));
        i += n;
    }
    t.to_text()
}

fn judge_probe(cfg: &Cfg, samples: &[f32], j: usize, delta: f32, region: Region) -> Option<Violation> {
    let mkv = |clause: &str, msg: String| Violation { clause: clause.into(), signature: format!("C16:{}", clause), message: format!("{} [rate={} capacity={} discard={} perturbed sample {} of {} by {:+e}, region {:?}]", msg, cfg.rate, cfg.capacity(), cfg.discard(), j, samples.len(), delta, region), replay: probe_text(cfg, samples, j, delta, region) };
    match twin(cfg, samples, j, delta) {
        Err(p) => {
            let mut v = mkv("panic", format!("panicked: {}", p));
            v.signature = format!("C16:panic:{}", p);
            Some(v)
        }
        Ok((pressing, va, vb)) => {
            if !pressing {
                return Some(mkv("probe-not-pressing", "the probe history does not end in a reported press on both twins".into()));
            }
            match region {
                Region::Window => {
                    if !(vb > va) {
                        Some(mkv("window-sample-ignored", format!("raising a sample inside the averaged window did not raise value(): {} -> {}", va, vb)))
                    } else {
                        None
                    }
                }
                _ => {
                    if va.to_bits() != vb.to_bits() {
                        Some(mkv("excluded-sample-leaks", format!("raising a sample that must not contribute changed value(): {} -> {}", va, vb)))
                    } else {
                        None
                    }
                }
            }
        }
    }
}

/// Build a two-press history and perturb one sample per region.
pub fn probes(ctx: &Ctx, rates: &[u32]) -> Report {
    let small = ctx.tier == Tier::Small;
    let per_rate = ctx.budget(1, 4, 60) as usize;
    // the big buffers first: they dominate the wall time; fewer repetitions for them
    let mut jobs: Vec<(u32, usize)> = Vec::new();
    for rate in rates.iter().rev() {
        let n = if *rate <= 20_000 || RATES.contains(rate) { per_rate } else { per_rate.min(2) };
        for k in 0..n {
            jobs.push((*rate, k));
        }
    }
    par_shards(ctx, jobs.len(), |shard| {
        let mut rep = Report::new();
        let (rate, rep_i0) = jobs[shard];
        let mut r = Rng::derive(ctx.seed, "ribbon.probes", rate as u64 * 1000 + rep_i0 as u64);
        for rep_i in rep_i0..(rep_i0 + 1) {
            let mut cfg = pick_cfg(&mut r, &[rate]);
            if rep_i == 0 {
                cfg = Cfg { rate, softpot: 20e3, dropper: 820.0, pullup: 1e6, frac: 0.0, cap: 0 };
            }
            let (cap, l, discard, ignore) = (cfg.capacity(), cfg.run_len(), cfg.discard(), cfg.ignore());
            let b = cfg.boundary() as f32;
            let delta = 0.25 * b;
            let lvl = |r: &mut Rng| (r.uniform(0.05, 0.7) as f32) * b;
            // first press (complete), gap, second press of length l + extra (extra > 0: ring buffer has wrapped)
            let extra = match rep_i % 4 {
                0 => 0,
                1 => 1 + r.usize_below(cap.max(2)),
                2 => cap + r.usize_below(cap + 1),
                _ => 3 * cap + 7,
            };
            let first_len = l + r.usize_below(l + 1);
            let mut samples: Vec<f32> = Vec::new();
            let noisy = rep_i % 2 == 1;
            let (l1, l2) = (lvl(&mut r), lvl(&mut r));
            for _ in 0..first_len {
                samples.push(if noisy { l1 * r.uniform(0.9, 1.0) as f32 } else { l1 });
            }
            let gap = 1 + r.usize_below(3);
            for _ in 0..gap {
                samples.push(1.0);
            }
            let start2 = samples.len();
            let len2 = l + extra;
            for _ in 0..len2 {
                samples.push(if noisy { l2 * r.uniform(0.9, 1.0) as f32 } else { l2 });
            }
            let end = samples.len();
            // regions of the final state
            let win_lo = end - cap;
            let win_hi = end - discard; // [win_lo, win_hi) contributes
            let mut plan: Vec<(Region, Vec<usize>)> = Vec::new();
            let pick_some = |r: &mut Rng, lo: usize, hi: usize, n: usize| -> Vec<usize> {
                if hi <= lo {
                    return vec![];
                }
                if hi - lo <= n || (cap <= 64 && !small) {
                    (lo..hi).collect()
                } else {
                    let mut v = vec![lo, hi - 1];
                    for _ in 0..n {
                        v.push(lo + r.usize_below(hi - lo));
                    }
                    v
                }
            };
            let n_pick = if small { 2 } else if cap > 1000 && ctx.tier == Tier::Quick { 3 } else if cap > 300 && ctx.tier == Tier::Quick { 6 } else { 12 };
            plan.push((Region::EarlierPress, pick_some(&mut r, 0, first_len, n_pick)));
            plan.push((Region::PreWindow, pick_some(&mut r, start2 + ignore.saturating_sub(1), win_lo, n_pick)));
            plan.push((Region::Window, pick_some(&mut r, win_lo, win_hi, n_pick)));
            plan.push((Region::DiscardedTail, pick_some(&mut r, win_hi, end, n_pick)));
            // settling samples only exist apart from the window when the second press is exactly l long
            plan.push((Region::Settling, pick_some(&mut r, start2, (start2 + ignore.saturating_sub(1)).min(win_lo), n_pick)));
            for (region, idxs) in plan {
                for j in idxs {
                    rep.evaluations += 2 * samples.len() as u64;
                    rep.count(&format!("ribbon.probe.{:?}", region), 1);
                    rep.class(("probe", rate, region, extra > 0, noisy));
                    if let Some(v) = judge_probe(&cfg, &samples, j, delta, region) {
                        rep.violate(v);
                    }
                }
            }
            if rep_i == 0 {
                rep.sample(format!("ribbon probe rate={} capacity={} : press of {} samples, {} out-of-range, press of {} samples; one sample raised by {} per twin run", rate, cap, first_len, gap, len2, delta));
            }
        }
        rep
    })
}

pub fn run(ctx: &Ctx, prop: &str) -> Report {
    let mut rep = Report::new();
    let small = ctx.tier == Tier::Small;
    ROUNDED_CAPS.store(prop == "C15" || prop == "C16", std::sync::atomic::Ordering::Relaxed);
    // the ten standard rates plus a seed-dependent selection of the other instantiated rates (all of them in thorough)
    let rates: Vec<u32> = if small {
        vec![100, 1000, 3000]
    } else {
        let mut v = RATES.to_vec();
        let mut rr = Rng::derive(ctx.seed, "ribbon.extra_rates", 0);
        let others: Vec<u32> = ALL_RATES.iter().copied().filter(|x| !RATES.contains(x)).collect();
        if ctx.tier == Tier::Thorough {
            v.extend(others);
        } else {
            // every odd-looking rate that is cheap (small buffers), and a rotating sample of the expensive ones
            v.extend(others.iter().copied().filter(|x| *x <= 20_000));
            for _ in 0..12 {
                let x = *rr.pick(&others);
                if !v.contains(&x) {
                    v.push(x);
                }
            }
        }
        v.sort();
        v
    };
    let cheap: Vec<u32> = rates.iter().copied().filter(|x| *x <= 25_000).collect();
    let stage = |name: &str, r: Report, rep: &mut Report, t0: std::time::Instant| {
        let ev = r.evaluations;
        rep.merge(r);
        rep.stages.push((name.to_string(), t0.elapsed().as_secs_f64(), ev));
    };
    let t0 = std::time::Instant::now();
    // (a) every selected rate gets its own histories, strict and sparse polling, tap trains and mixed presses
    // (rate, k) jobs: more histories on the small buffers, a few on the big ones; the big ones first
    let mut jobs: Vec<(u32, usize)> = Vec::new();
    for rate in rates.iter().rev() {
        let n = if *rate <= 20_000 { ctx.budget(2, 6, 40) } else if RATES.contains(rate) { ctx.budget(2, 6, 12) } else { ctx.budget(2, 4, 4) } as usize;
        for k in 0..n {
            jobs.push((*rate, k));
        }
    }
    let r = par_shards(ctx, jobs.len(), |job| {
        let mut rep = Report::new();
        let (rate, k) = jobs[job];
        let mut r = Rng::derive(ctx.seed, "ribbon.per_rate", rate as u64 * 1000 + k as u64);
        let strict = k % 2 == 0;
        let h = if k % 3 == 0 { gen_tap_train(&mut r, &[rate], strict) } else { gen_history(&mut r, &[rate], strict, if small { 4 } else { 8 }) };
        run_and_record(&h, prop, &mut rep, job < 2);
        rep
    });
    stage("ribbon.histories_per_rate", r, &mut rep, t0);
    // (a2) one very long press whose position creeps along the ribbon (many buffer turnovers without a release)
    let t0 = std::time::Instant::now();
    let long_rates: Vec<u32> = if small { vec![100] } else { vec![100, 1000, 3000, 10_000, 800] };
    let r = par_shards(ctx, long_rates.len(), |j| {
        let mut rep = Report::new();
        let rate = long_rates[j];
        let mut r = Rng::derive(ctx.seed, "ribbon.long_press", rate as u64);
        let cfg = if j % 2 == 0 { Cfg { rate, softpot: 20e3, dropper: 820.0, pullup: 1e6, frac: 0.0, cap: 0 } } else { pick_cfg(&mut r, &[rate]) };
        let b = (cfg.boundary() - 2e-5) as f32;
        let total = ctx.budget(400, 400_000, 4_000_000);
        let segs = ctx.budget(20, 2_000, 20_000);
        let mut ops = Vec::new();
        let start = 0.05 * b + 0.1 * b * r.unit() as f32;
        for k in 0..segs {
            // creep upward by a few ulps per segment, with a slow wobble
            let x = start + (0.8 * b - start) * (k as f32 / segs as f32) + 1e-4 * ((k % 17) as f32 - 8.0) * b;
            ops.push(Op::Poll(x.max(0.0).min(b), (total / segs).max(1)));
        }
        ops.push(Op::Poll(1.0, 3));
        let h = History { cfg, strict: j % 2 == 1, ops };
        run_and_record(&h, prop, &mut rep, false);
        rep.count("ribbon.very_long_presses", 1);
        rep
    });
    stage("ribbon.very_long_creeping_press", r, &mut rep, t0);
    if !small {
        // one contact lasting 2^24 (quick) / 2^31 and 2^32 (thorough) samples on the smallest buffers
        let t0 = std::time::Instant::now();
        let mut lens: Vec<u64> = vec![(1 << 24) + 3];
        if ctx.tier == Tier::Thorough {
            lens.extend([(1u64 << 31) + 5, (1 << 32) + 5]);
        }
        let jobs: Vec<(u32, u64)> = lens.iter().flat_map(|l| [(100u32, *l), (250, *l)]).collect();
        let r = par_shards(ctx, jobs.len(), |j| {
            let mut rep = Report::new();
            let (rate, len) = jobs[j];
            let cfg = Cfg { rate, softpot: 20e3, dropper: 820.0, pullup: 1e6, frac: 0.0, cap: 0 };
            let bb = cfg.boundary() as f32;
            let ops = vec![Op::Poll(0.25 * bb, 50), Op::Poll(1.0, 2), Op::Poll(0.75 * bb, len), Op::ReadPressed, Op::Poll(0.5 * bb, 40), Op::Poll(1.0, 2), Op::ReadReleased, Op::Poll(0.1 * bb, 30), Op::Poll(1.0, 1)];
            let h = History { cfg, strict: false, ops };
            run_and_record(&h, prop, &mut rep, false);
            rep.count("ribbon.contacts_longer_than_2pow24", 1);
            rep
        });
        stage("ribbon.extremely_long_contact", r, &mut rep, t0);
    }
    // (a3) more than 2^16 presses and releases on the smallest buffers
    if !small {
        let t0 = std::time::Instant::now();
        let r = par_shards(ctx, 2, |j| {
            let mut rep = Report::new();
            let rate = [100u32, 250][j];
            let cfg = Cfg { rate, softpot: 20e3, dropper: 820.0, pullup: 1e6, frac: 0.0, cap: 0 };
            let l = cfg.run_len() as u64;
            let mut ops = Vec::new();
            for k in 0..70_000u32 {
                ops.push(Op::Poll(0.1 + 0.8 * ((k % 97) as f32 / 97.0) * cfg.boundary() as f32, l + (k % 3) as u64));
                ops.push(Op::Poll(1.0, 1 + (k % 2) as u64));
                if k % 5 == 0 {
                    ops.push(Op::ReadPressed);
                }
                if k % 7 == 0 {
                    ops.push(Op::ReadReleased);
                }
            }
            let h = History { cfg, strict: false, ops };
            run_and_record(&h, prop, &mut rep, false);
            rep.count("ribbon.many_presses_histories", 1);
            rep
        });
        stage("ribbon.many_presses", r, &mut rep, t0);
    }
    // (a4) top of the range: a press held a few ulps below the boundary with a negligible pull-up correction; the
    // f32 average of such samples can round above the boundary, value() must still be at most 1
    {
        let t0 = std::time::Instant::now();
        let jobs: Vec<u32> = rates.clone();
        let r = par_shards(ctx, jobs.len(), |j| {
            let mut rep = Report::new();
            let rate = jobs[j];
            let mut r = Rng::derive(ctx.seed, "ribbon.top_of_range", rate as u64);
            let n = if rate <= 20_000 { ctx.budget(1, 4, 16) } else { ctx.budget(1, 1, 3) };
            for k in 0..n {
                let mut cfg = if k == 0 { Cfg { rate, softpot: 20e3, dropper: 820.0, pullup: 1e6, frac: 0.0, cap: 0 } } else { pick_cfg(&mut r, &[rate]) };
                cfg.pullup = [1e9f32, 1e12, 1e7, 1e10][k as usize % 4];
                if let Some(x) = exact_boundary(&cfg) {
                    let top = f32::from_bits(x.to_bits() - 1 - (k as u32 % 3));
                    let l = cfg.run_len() as u64;
                    let ops = vec![Op::Poll(top, l + cfg.capacity() as u64 + 3), Op::ReadPressed, Op::Poll(1.0, 2), Op::ReadReleased, Op::Poll(0.5 * top, l), Op::Poll(top, 2 * cfg.capacity() as u64), Op::Poll(1.0, 1)];
                    let h = History { cfg, strict: k % 2 == 0, ops };
                    run_and_record(&h, prop, &mut rep, false);
                    rep.count("ribbon.top_of_range_presses", 2);
                }
            }
            rep
        });
        stage("ribbon.top_of_range", r, &mut rep, t0);
    }
    // (a5) buffers rounded up to a convenient size (64, 256, 1024, 4096 slots) at rates whose helper capacity is
    // smaller: the press needs the whole buffer, not the helper's count
    {
        let t0 = std::time::Instant::now();
        let pairs: Vec<(u32, u32)> = if small { vec![(1000, 64), (100, 64)] } else { vec![(100, 64), (1000, 64), (3000, 64), (3000, 256), (10_000, 256), (14_000, 256), (10_000, 1024), (44_100, 1024), (48_000, 1024), (48_000, 4096), (96_000, 4096), (192_000, 4096), (240_000, 4096)] };
        let per = ctx.budget(1, 6, 60) as usize;
        let r = par_shards(ctx, pairs.len(), |j| {
            let mut rep = Report::new();
            let (rate, cap) = pairs[j];
            let mut r = Rng::derive(ctx.seed, "ribbon.rounded_up", rate as u64 * 10_000 + cap as u64);
            for k in 0..per {
                let strict = k % 2 == 0;
                let mut cfg = pick_cfg(&mut r, &[rate]);
                cfg.cap = cap;
                let h = if k % 3 == 0 { gen_tap_train_cfg(&mut r, cfg, strict) } else { gen_history_cfg(&mut r, cfg, strict, 6) };
                run_and_record(&h, prop, &mut rep, false);
                rep.count("ribbon.rounded_up_buffer_histories", 1);
            }
            rep
        });
        stage("ribbon.rounded_up_buffers", r, &mut rep, t0);
    }
    // (a6) a controller that has been polled for a long time (idle, and one long contact): presses of exactly the
    // required length and one sample less must still be told apart (no clock or counter may have drifted)
    if !small {
        let t0 = std::time::Instant::now();
        let aged: Vec<u32> = vec![1000, 10_000, 44_100, 48_000, 96_000, 192_000];
        let r = par_shards(ctx, aged.len(), |j| {
            let mut rep = Report::new();
            let rate = aged[j];
            let cfg = Cfg { rate, softpot: 20e3, dropper: 820.0, pullup: 1e6, frac: 0.0, cap: 0 };
            let b = cfg.boundary() as f32;
            let l = cfg.run_len() as u64;
            let mut ops = vec![Op::Poll(1.0, 150_000 + (ctx.seed % 1000))];
            for k in 0..3u64 {
                ops.push(Op::Poll(0.3 * b, l - 1));
                ops.push(Op::Poll(1.0, 1 + k));
                ops.push(Op::ReadPressed);
                ops.push(Op::Poll(0.6 * b, l));
                ops.push(Op::ReadPressed);
                ops.push(Op::Poll(1.0, 2));
                ops.push(Op::ReadReleased);
                // then a long contact and a long pause before the next round
                ops.push(Op::Poll(0.4 * b, 120_000 + 7 * k));
                ops.push(Op::Poll(1.0, 100_000 + 13 * k));
                ops.push(Op::ReadReleased);
            }
            let h = History { cfg, strict: false, ops };
            run_and_record(&h, prop, &mut rep, false);
            rep.count("ribbon.aged_controller_histories", 1);
            rep
        });
        stage("ribbon.aged_controller", r, &mut rep, t0);
    }
    // (b) many more histories on the cheap (small-buffer) rates
    let t0 = std::time::Instant::now();
    let n_hist = ctx.budget(4, 4_000, 300_000) as usize;
    let shards = if small { 1 } else { 64 };
    let r = par_shards(ctx, shards, |sh| {
        let mut rep = Report::new();
        let mut r = Rng::derive(ctx.seed, "ribbon.histories", sh as u64);
        for j in 0..(n_hist + shards - 1) / shards {
            let strict = j % 2 == 0;
            let rs: &[u32] = if small { &rates } else { &cheap };
            let h = if j % 3 == 0 { gen_tap_train(&mut r, rs, strict) } else { gen_history(&mut r, rs, strict, if small { 4 } else { 10 }) };
            run_and_record(&h, prop, &mut rep, sh == 0 && j < 1);
        }
        rep
    });
    stage("ribbon.sample_histories", r, &mut rep, t0);
    if prop == "C16" {
        let t0 = std::time::Instant::now();
        stage("ribbon.influence_probes", probes(ctx, &rates), &mut rep, t0);
    }
    if !small {
        rep.floor("ribbon.presses", 1000);
        rep.floor("ribbon.releases", 1000);
        rep.floor("ribbon.taps_too_short", 1000);
        rep.floor("ribbon.press_after_too_short_tap", 1000);
        rep.floor("ribbon.run_reached_exact_length", 1000);
        rep.floor("ribbon.glitches_1_2_samples", 100);
        rep.floor("ribbon.top_of_range_presses", 50);
        rep.floor("ribbon.rounded_up_buffer_histories", 50);
        for rate in RATES {
            rep.floor(&format!("ribbon.histories.rate{}", rate), 5);
        }
        if prop == "C15" {
            for k in ["just_pressed.true", "just_pressed.false", "just_released.true", "just_released.false"] {
                rep.floor(&format!("ribbon.{}", k), 500);
            }
        } else {
            rep.floor("ribbon.value_checks_while_pressing", 100_000);
            rep.floor("ribbon.value_retained_checks", 10_000);
            for reg in ["EarlierPress", "PreWindow", "Window", "DiscardedTail"] {
                rep.floor(&format!("ribbon.probe.{}", reg), 200);
            }
        }
    }
    rep
}

pub fn replay(t: &Text, want: &str, rep: &mut Report) -> Result<Option<Violation>, String> {
    if t.get("module")? == "ribbon-probe" {
        let cfg = Cfg { rate: pu(t.get("rate")?)? as u32, softpot: pf(t.get("softpot")?)?, dropper: pf(t.get("dropper")?)?, pullup: pf(t.get("pullup")?)?, frac: t.get_opt("frac").map(pf).transpose()?.unwrap_or(0.0), cap: t.get_opt("cap").map(pu).transpose()?.unwrap_or(0) as u32 };
        let j = pu(t.get("perturbed_index")?)? as usize;
        let delta = pf(t.get("delta")?)?;
        let region = match t.get("region")? {
            "EarlierPress" => Region::EarlierPress,
            "PreWindow" => Region::PreWindow,
            "Window" => Region::Window,
            "DiscardedTail" => Region::DiscardedTail,
            _ => Region::Settling,
        };
        let mut samples = Vec::new();
        for l in &t.ops {
            let mut it = l.split_whitespace();
            if it.next() == Some("poll") {
                let x = pf(it.next().ok_or("arg")?)?;
                let n = pu(it.next().ok_or("arg")?)?;
                for _ in 0..n {
                    samples.push(x);
                }
            }
        }
        rep.evaluations += 2 * samples.len() as u64;
        return Ok(judge_probe(&cfg, &samples, j, delta, region));
    }
    let h = History::parse(t)?;
    Ok(execute(&h, want, rep))
}
