"""Extra engines run by ./check after the native monitored run (E1):
   E2 Miri  - the same workloads and monitors at --tier small under the Miri interpreter
   E3 ASan  - the native quick-tier workload of the property again under AddressSanitizer
Each engine returns {name, wall_s, rc, evaluations, violations[], inconclusive?, summary{}}.
A Miri diagnostic or an ASan report is a violation; a timeout or a toolchain failure is inconclusive."""
import json
import os
import re
import subprocess
import time
from concurrent.futures import ThreadPoolExecutor


def _first_repo_frame(text):
    # Miri: the location follows the first "error:" line as "--> path:line:col"
    i = text.find("error: Undefined Behavior")
    if i < 0:
        i = text.find("error:")
    if i >= 0:
        m = re.search(r"-->\s+(\S+?):(\d+):\d+", text[i:])
        if m:
            path = m.group(1)
            for marker in ("/registry/src/", "/src/"):
                k = path.rfind(marker)
                if k >= 0:
                    path = path[k + (len(marker) if marker == "/registry/src/" else 1):]
                    break
            return "%s:%s" % (path, m.group(2))
    # first frame inside the crate under test or heapless/biquad/midi: dedupe key for sanitizer reports
    for pat in (r"(/repo/src/[\w_]+\.rs:\d+)", r"((?:heapless|biquad|midi-convert|midi-types)-[\d.]+/src/[\w_/]+\.rs:\d+)", r"(src/[\w_]+\.rs:\d+:\d+)"):
        m = re.search(pat, text)
        if m:
            return m.group(1)
    return "unknown-frame"


def miri(shards_by_tier, scale_by_tier=None, timeout_s=3000):
    scale_by_tier = scale_by_tier or {}

    def run(prop, tier, seed, verif, repo, env, work, config_args):
        n = shards_by_tier.get(tier, 1)
        scale = scale_by_tier.get(tier, 1.0)
        e = dict(env)
        e["MIRIFLAGS"] = "-Zmiri-disable-isolation"
        e["CARGO_TARGET_DIR"] = os.path.join(os.environ.get("VERIF_TARGET", os.path.join(verif, ".target")), "miri-target")
        t0 = time.time()
        base = ["cargo", "+nightly", "miri", "run", "--offline", "--manifest-path", os.path.join(verif, "harness", "Cargo.toml"), "--bin", "run"] + config_args + ["--"]

        def one(k):
            out = os.path.join(work, "%s.miri.%d.%d.json" % (prop, os.getpid(), k))
            cmd = base + [prop, "--tier", "small", "--seed", str(seed * 1000 + k), "--scale", str(scale), "--out", out, "--replay-dir", os.path.join(verif, "replays", prop)]
            try:
                p = subprocess.run(cmd, env=e, stdout=subprocess.PIPE, stderr=subprocess.PIPE, text=True, timeout=timeout_s)
                return k, p.returncode, p.stderr, out, " ".join(cmd)
            except subprocess.TimeoutExpired:
                return k, -9, "timeout", out, " ".join(cmd)

        # the first shard also builds; the others start once it has, to avoid 16 cargo processes waiting on the lock
        results = [one(0)]
        if n > 1:
            with ThreadPoolExecutor(max_workers=min(n - 1, 15)) as ex:
                results += list(ex.map(one, range(1, n)))
        violations, evals, inconclusive, reports = [], 0, None, 0
        per = []
        for k, rc, err, out, cmdline in results:
            if rc == 0 and os.path.exists(out):
                r = json.load(open(out))
                os.remove(out)
                evals += r["evaluations"]
                per.append({"shard": k, "evaluations": r["evaluations"], "wall_s": round(r["wall_s"], 1), "monitor_violations": r["violation_count"]})
                for v in r["violations"]:
                    v = dict(v)
                    v["message"] = "[under Miri] " + v["message"]
                    violations.append(v)
            elif rc == -9:
                inconclusive = "Miri shard %d hit the %d s watchdog" % (k, timeout_s)
            elif "Undefined Behavior" in err or "error: unsupported operation" in err or "memory leaked" in err or "panicked" in err:
                reports += 1
                frame = _first_repo_frame(err)
                kind = "Undefined Behavior" if "Undefined Behavior" in err else ("unsupported operation" if "unsupported operation" in err else ("memory leak" if "memory leaked" in err else "harness panic"))
                first = next((l for l in err.splitlines() if l.startswith("error")), err[-300:])
                rp = os.path.join(verif, "replays", prop)
                os.makedirs(rp, exist_ok=True)
                path = os.path.join(rp, "%s-miri-seed%d-shard%d.txt" % (prop, seed, k))
                with open(path, "w") as fh:
                    fh.write("# Miri diagnostic; re-run with:\n# MIRIFLAGS=-Zmiri-disable-isolation %s\n\n%s\n" % (cmdline, err[-6000:]))
                if prop == "C17":
                    violations.append({"clause": "miri", "signature": "%s:miri:%s:%s" % (prop, kind.replace(" ", "-"), frame), "message": "Miri: %s" % first[:300], "replay": path})
                else:
                    # undefined behaviour is C17's subject; for another property the run can simply not be trusted
                    inconclusive = "Miri diagnostic while running this property's workload (%s at %s; a C17 matter, see %s)" % (kind, frame, path)
            else:
                inconclusive = "Miri shard %d failed to run (rc=%s): %s" % (k, rc, err.strip().splitlines()[-1][:200] if err.strip() else "")
        return {"name": "E2 Miri (%d process%s, --tier small, scale %s)" % (n, "es" if n > 1 else "", scale), "wall_s": round(time.time() - t0, 1), "rc": 0 if not violations else 1,
                "evaluations": evals, "violations": violations, "inconclusive": inconclusive,
                "summary": {"processes": n, "monitored_calls_interpreted": evals, "miri_diagnostics": reports, "shards": per}}

    run.__name__ = "miri_engine"
    return run


def asan(tier_arg_by_tier, timeout_s=3000):
    def run(prop, tier, seed, verif, repo, env, work, config_args):
        e = dict(env)
        e["RUSTFLAGS"] = "-Zsanitizer=address -Cforce-frame-pointers=yes"
        e["CARGO_TARGET_DIR"] = os.path.join(os.environ.get("VERIF_TARGET", os.path.join(verif, ".target")), "asan-target")
        e["ASAN_OPTIONS"] = "halt_on_error=1:abort_on_error=0:detect_leaks=1:detect_stack_use_after_return=1"
        t0 = time.time()
        cmd = ["cargo", "+nightly", "build", "--offline", "--profile", "verif", "--target", "x86_64-unknown-linux-gnu", "--manifest-path", os.path.join(verif, "harness", "Cargo.toml"), "--bin", "run"] + config_args
        p = subprocess.run(cmd, env=e, stdout=subprocess.PIPE, stderr=subprocess.STDOUT, text=True)
        name = "E3 ASan (native %s-tier workload under AddressSanitizer)" % tier_arg_by_tier.get(tier, "quick")
        if p.returncode != 0:
            return {"name": name, "wall_s": round(time.time() - t0, 1), "rc": p.returncode, "inconclusive": "ASan build failed: " + p.stdout.strip().splitlines()[-1][:200]}
        exe = os.path.join(e["CARGO_TARGET_DIR"], "x86_64-unknown-linux-gnu", "verif", "run")
        out = os.path.join(work, "%s.asan.%d.json" % (prop, os.getpid()))
        cmd = [exe, prop, "--tier", tier_arg_by_tier.get(tier, "quick"), "--seed", str(seed + 7), "--out", out, "--replay-dir", os.path.join(verif, "replays", prop)]
        try:
            p = subprocess.run(cmd, env=e, stdout=subprocess.PIPE, stderr=subprocess.PIPE, text=True, timeout=timeout_s)
        except subprocess.TimeoutExpired:
            return {"name": name, "wall_s": round(time.time() - t0, 1), "rc": -9, "inconclusive": "ASan run hit the %d s watchdog" % timeout_s}
        violations, evals = [], 0
        if "AddressSanitizer" in p.stderr or "LeakSanitizer" in p.stderr:
            frame = _first_repo_frame(p.stderr)
            first = next((l for l in p.stderr.splitlines() if "Sanitizer" in l), "")
            rp = os.path.join(verif, "replays", prop)
            os.makedirs(rp, exist_ok=True)
            path = os.path.join(rp, "%s-asan-seed%d.txt" % (prop, seed))
            with open(path, "w") as fh:
                fh.write("# ASan report; re-run with:\n# ASAN_OPTIONS=%s %s\n\n%s\n" % (e["ASAN_OPTIONS"], " ".join(cmd), p.stderr[-8000:]))
            if prop == "C17":
                violations.append({"clause": "asan", "signature": "%s:asan:%s" % (prop, frame), "message": "ASan: %s" % first[:300], "replay": path})
            else:
                return {"name": name, "wall_s": round(time.time() - t0, 1), "rc": 1, "inconclusive": "ASan report while running this property's workload (at %s; a C17 matter, see %s)" % (frame, path)}
        elif p.returncode != 0 or not os.path.exists(out):
            return {"name": name, "wall_s": round(time.time() - t0, 1), "rc": p.returncode, "inconclusive": "ASan run failed rc=%s: %s" % (p.returncode, p.stderr.strip().splitlines()[-1][:200] if p.stderr.strip() else "")}
        summary = {"asan_reports": len(violations)}
        if os.path.exists(out):
            r = json.load(open(out))
            os.remove(out)
            evals = r["evaluations"]
            summary.update({"monitored_calls_under_asan": evals, "monitor_violations": r["violation_count"]})
            for v in r["violations"]:
                v = dict(v)
                v["message"] = "[under ASan] " + v["message"]
                violations.append(v)
        return {"name": name, "wall_s": round(time.time() - t0, 1), "rc": 1 if violations else 0, "evaluations": evals, "violations": violations, "summary": summary}

    run.__name__ = "asan_engine"
    return run
