//! Glide processor: recorded histories of set_time / process and the monitors of
//!   C13  range, monotone approach, no ringing, bounded settling
//!   C14  time constant (step-response points), fast/slow clamps, 0.05 s dead band (pole estimated
//!        from the outputs)
//! The only reference is the RC law of the property: pole a(t) = (1-w)/(1+w), w = tan(pi*f0/fs),
//! f0 = 1/t limited below by 0.1 Hz. Nothing is assumed about the fast end except what C13/C14 state.

use crate::replay::{f, pf, pu, Text};
use crate::report::{guard, par_shards, Ctx, Report, Tier, Violation};
use crate::rng::Rng;
use synth_utils::glide_processor::GlideProcessor;

#[derive(Clone, Debug, PartialEq)]
pub enum Op {
    SetTime(f32),
    /// process(x) n times
    Hold(f32, u64),
    /// n inputs uniform in [lo, hi] from a private generator (range clause only)
    Noise(u64, u64, f32, f32),
    /// process(y_prev) n times: the output fed back as the input (a glide frozen where it is)
    Feedback(u64),
    /// hold the input at (the output just produced + delta) for n samples
    RelStep(f32, u64),
}

#[derive(Clone, Debug)]
pub struct History {
    pub fs: f32,
    pub ops: Vec<Op>,
}

impl History {
    pub fn to_text(&self, property: &str, upto_op: usize, n_in_last: Option<u64>) -> String {
        let mut t = Text::new();
        t.set("property", property).set("module", "glide").set("fs", format!("{}  # {}", f(self.fs), self.fs));
        for (i, op) in self.ops.iter().enumerate() {
            if i > upto_op {
                break;
            }
            t.ops.push(match op {
                Op::SetTime(x) => format!("set_time {}  # {:e} s", f(*x), x),
                Op::Hold(x, n) => format!("hold {} {}  # process({:e}) x n", f(*x), if i == upto_op { n_in_last.unwrap_or(*n) } else { *n }, x),
                Op::Noise(s, n, lo, hi) => format!("noise {} {} {} {}", s, if i == upto_op { n_in_last.unwrap_or(*n) } else { *n }, f(*lo), f(*hi)),
                Op::Feedback(n) => format!("feedback {}", if i == upto_op { n_in_last.unwrap_or(*n) } else { *n }),
                Op::RelStep(d, n) => format!("rel_step {} {}  # hold at output + {:e}", f(*d), if i == upto_op { n_in_last.unwrap_or(*n) } else { *n }, d),
            });
        }
        t.to_text()
    }
    pub fn parse(t: &Text) -> Result<Self, String> {
        let fs = pf(t.get("fs")?)?;
        let mut ops = Vec::new();
        for l in &t.ops {
            let mut it = l.split_whitespace();
            match it.next().unwrap_or("") {
                "set_time" => ops.push(Op::SetTime(pf(it.next().ok_or("arg")?)?)),
                "hold" => {
                    let x = pf(it.next().ok_or("arg")?)?;
                    ops.push(Op::Hold(x, pu(it.next().ok_or("arg")?)?))
                }
                "feedback" => ops.push(Op::Feedback(pu(it.next().ok_or("arg")?)?)),
                "rel_step" => {
                    let d = pf(it.next().ok_or("arg")?)?;
                    ops.push(Op::RelStep(d, pu(it.next().ok_or("arg")?)?))
                }
                "noise" => {
                    let s = pu(it.next().ok_or("arg")?)?;
                    let n = pu(it.next().ok_or("arg")?)?;
                    let lo = pf(it.next().ok_or("arg")?)?;
                    let hi = pf(it.next().ok_or("arg")?)?;
                    ops.push(Op::Noise(s, n, lo, hi))
                }
                x => return Err(format!("unknown glide op '{}'", x)),
            }
        }
        Ok(History { fs, ops })
    }
    pub fn brief(&self) -> String {
        let txt: Vec<String> = self.ops.iter().take(12).map(|o| format!("{:?}", o)).collect();
        format!("glide fs={} ops=[{}{}]", self.fs, txt.join(", "), if self.ops.len() > 12 { ", ..." } else { "" })
    }
}

/// pole of the RC lag for time t at sample rate fs (only meaningful for 1/t well below fs/4)
pub fn pole(t: f64, fs: f64) -> f64 {
    let f0 = (1.0 / t).max(0.1);
    let w = (std::f64::consts::PI * f0 / fs).tan();
    (1.0 - w) / (1.0 + w)
}

#[derive(Clone, Copy, Debug)]
struct Eff {
    t: f32,
    /// the time constant is specified by C14 (>= 100 samples per t)
    specified: bool,
    /// t < 2/fs: fastest response
    fastest: bool,
    a_lo: f64,
    a_hi: f64,
}

fn eff(t: f32, fs: f64) -> Eff {
    let n = t as f64 * fs;
    if n >= 100.0 {
        let a = pole(t as f64, fs);
        Eff { t, specified: true, fastest: false, a_lo: a, a_hi: a }
    } else {
        // only "no ringing, settles; < 2 samples: within 8 samples" is stated here: pole somewhere in [0, a(100/fs)]
        let a100 = pole(100.0 / fs, fs);
        Eff { t, specified: false, fastest: n < 2.0, a_lo: 0.0, a_hi: a100 }
    }
}

const EPS2: f64 = 2.0 / 8_388_608.0; // 2 * 2^-23

/// Execute one history with the C13 / C14 monitors.
pub fn execute(h: &History, want: &str, rep: &mut Report) -> Option<Violation> {
    let fs = h.fs;
    let fs64 = fs as f64;
    let mk = |prop: &str, clause: &str, msg: String, i: usize, n: Option<u64>| -> Violation {
        Violation { clause: clause.to_string(), signature: format!("{}:{}", prop, clause), message: format!("{} [fs={} op#{} {:?}{}]", msg, fs, i, h.ops[i.min(h.ops.len().saturating_sub(1))], n.map(|t| format!(" sample {}", t)).unwrap_or_default()), replay: h.to_text(prop, i, n) }
    };
    let mut n_eval = 0u64;
    macro_rules! call {
        ($e:expr, $i:expr, $n:expr) => {
            match guard(|| $e) {
                Ok(v) => v,
                Err(p) => {
                    rep.evaluations += n_eval;
                    let mut v = mk(want, "panic", format!("panicked: {}", p), $i, $n);
                    v.signature = format!("{}:panic:{}", want, p);
                    return Some(v);
                }
            }
        };
    }
    macro_rules! fail {
        ($prop:expr, $clause:expr, $msg:expr, $i:expr, $n:expr) => {
            if want == $prop || want == "ALL" {
                rep.evaluations += n_eval;
                return Some(mk($prop, $clause, $msg, $i, $n));
            }
        };
    }
    let mut g = call!(GlideProcessor::new(fs), 0, None);
    let mut cur: Option<Eff> = None;
    let mut ambiguous = false; // a request landed on the edge of the dead band: the time in effect is unknown
    let (mut in_min, mut in_max, mut m_abs) = (0.0f64, 0.0f64, 0.0f64);
    let mut carry = 0.0f64;
    let mut y_prev = 0.0f64;
    let mut x_prev: Option<f32> = None;
    let (mut max_over, mut max_settle, mut max_pole_err) = (0.0f64, 0.0f64, 0.0f64);
    let (mut c_holds, mut c_switch_fast, mut c_pole_est, mut c_settled, mut c_fast_settled, mut c_ignored, mut c_honoured, mut c_step_pts) = (0u64, 0u64, 0u64, 0u64, 0u64, 0u64, 0u64, 0u64);
    // the running hold (constant input) and the running segment (constant input AND constant time setting)
    let mut hold_x: f64 = 0.0;
    let mut hold_n: u64 = 0;
    let mut seg_n: u64 = 0;
    let mut seg_e1: f64 = 0.0; // error on the first sample of the segment
    let mut seg_e2: f64 = 0.0; // error on the second sample of the segment (start of the pole window)
    let mut step_from: f64 = 0.0;
    let mut step_clean = false; // the hold began from a settled output under a known time that has not changed since
    let mut settime_in_hold = false;
    let mut step_pts_by_decade = [0u64; 7];
    let mut step_pts_tiny = 0u64;
    let mut pole_by_decade = [0u64; 7];
    // the slowest pole among all times requested so far: which request is in effect (the 0.05 s dead band) is C14's
    // clause, so C13's "settles" is only violated by an approach slower than every time that was ever asked for
    let mut a_slowest: f64 = 0.0;
    let mut env_slow: f64 = 0.0;
    let mut env: f64 = 0.0; // RC envelope of the error in the running segment
    let mut env_settled = false;

    for (i, op) in h.ops.iter().enumerate() {
        match op {
            Op::SetTime(t) => {
                call!(g.set_time(*t), i, None);
                n_eval += 1;
                a_slowest = a_slowest.max(eff(*t, fs64).a_hi);
                let honoured = match cur {
                    None => Some(true),
                    Some(c) => {
                        let d = ((*t as f64) - (c.t as f64)).abs();
                        if (d - 0.05).abs() <= 1e-6 || ambiguous {
                            None
                        } else {
                            Some(d > 0.05)
                        }
                    }
                };
                let was_mid = x_prev.is_some() && m_abs > 0.0 && (y_prev - x_prev.unwrap() as f64).abs() > 0.05 * m_abs;
                match honoured {
                    Some(true) => {
                        carry += cur.map(|c| (EPS2 * m_abs + 4.0e-45) / (1.0 - c.a_hi)).unwrap_or(0.0);
                        let e = eff(*t, fs64);
                        cur = Some(e);
                        c_honoured += 1;
                        if was_mid && (*t as f64) * fs64 <= 2.0 {
                            c_switch_fast += 1;
                        }
                        rep.class(("set_time", ((*t as f64 * fs64).max(0.1).log10().floor() as i64), was_mid, e.specified));
                    }
                    Some(false) => {
                        c_ignored += 1;
                        rep.class(("set_time_ignored", was_mid, ((cur.unwrap().t as f64 * fs64).max(0.1).log10().floor() as i64)));
                    }
                    None => {
                        // the time in effect is one of two candidates from here on; only an unambiguous
                        // jump far away from both makes it known again
                        if ambiguous {
                            let c = cur.unwrap();
                            let d = ((*t as f64) - (c.t as f64)).abs();
                            if d > 0.2 {
                                carry += (EPS2 * m_abs + 4.0e-45) / (1.0 - c.a_hi.max(pole(10.0, fs64)));
                                cur = Some(eff(*t, fs64));
                                ambiguous = false;
                                c_honoured += 1;
                            }
                        } else {
                            ambiguous = true;
                        }
                        rep.count("glide.set_time_on_dead_band_edge", 1);
                    }
                }
                seg_n = 0;
                settime_in_hold = true;
            }
            Op::Hold(_, _) | Op::Noise(_, _, _, _) | Op::Feedback(_) | Op::RelStep(_, _) => {
                let rel_level: f32 = if let Op::RelStep(d, _) = op { y_prev as f32 + *d } else { 0.0 };
                let (n, is_hold) = match op {
                    Op::Hold(_, n) => (*n, true),
                    Op::RelStep(_, n) => (*n, true),
                    Op::Noise(_, n, _, _) => (*n, false),
                    // the fed-back value is a new constant input each time the output moves: treated as holds
                    Op::Feedback(n) => (*n, true),
                    _ => unreachable!(),
                };
                let mut nr = if let Op::Noise(s, _, _, _) = op { Some(Rng::new(*s)) } else { None };
                for k in 1..=n {
                    let x: f32 = match op {
                        Op::Hold(x, _) => *x,
                        Op::Noise(_, _, lo, hi) => nr.as_mut().unwrap().uniform(*lo as f64, *hi as f64) as f32,
                        Op::Feedback(_) => y_prev as f32,
                        Op::RelStep(_, _) => rel_level,
                        _ => unreachable!(),
                    };
                    let y = call!(g.process(x), i, Some(k)) as f64;
                    n_eval += 1;
                    let x64 = x as f64;
                    in_min = in_min.min(x64);
                    in_max = in_max.max(x64);
                    m_abs = m_abs.max(x64.abs());
                    // ---------------- C13 range ----------------
                    let (a_hi, known) = match cur {
                        Some(c) if !ambiguous => (c.a_hi, true),
                        Some(c) => (c.a_hi.max(pole(10.0, fs64)), false),
                        None => (pole(100.0 / fs64, fs64), false),
                    };
                    // relative f32 resolution at the largest magnitude seen, plus the absolute quantum of the subnormal range
                    let res = (EPS2 * m_abs + 4.0e-45) / (1.0 - a_hi);
                    carry *= a_hi;
                    let tol = res + carry;
                    let over = (y - in_max).max(in_min - y);
                    if !y.is_finite() && m_abs + tol >= f32::MAX as f64 {
                        // the input range widened by the filter resolution is not representable in f32: the filter
                        // state overflowed to inf (and is NaN from the next sample on, for good). Its own signature,
                        // so that any other way of leaving the range is still reported separately
                        if want == "C13" || want == "ALL" {
                            fail!("C13", "overflow-near-f32-max", format!("output {:e} after {} samples at |input| up to {:e}: the filter state overflowed (largest input + filter resolution {:e} exceeds f32::MAX) and the output is NaN from the next sample on; time in effect {:?}", y, k, m_abs, tol, cur.map(|c| c.t)), i, Some(k));
                        }
                        if want == "C14" {
                            // nothing further is defined for the step response of an overflowed filter
                            rep.count("glide.histories_ended_by_overflow_near_f32_max", 1);
                            rep.evaluations += n_eval;
                            return None;
                        }
                    }
                    if !(over <= tol) {
                        fail!("C13", "range", format!("output {:e} leaves the range [{:e}, {:e}] spanned by 0 and the inputs so far by {:e} (filter resolution {:e}); time in effect {:?}", y, in_min, in_max, over, tol, cur.map(|c| c.t)), i, Some(k));
                    }
                    if over / tol > max_over {
                        max_over = over / tol;
                    }
                    if !is_hold {
                        hold_n = 0;
                        seg_n = 0;
                    } else {
                        let new_hold = hold_n == 0 || x_prev.map(|p| p.to_bits()) != Some(x.to_bits());
                        if new_hold {
                            c_holds += 1;
                            hold_x = x64;
                            hold_n = 0;
                            seg_n = 0;
                            step_from = y_prev;
                            let settled_before = match x_prev {
                                None => y_prev == 0.0,
                                Some(p) => (y_prev - p as f64).abs() <= 1e-4 * (x64 - y_prev).abs(),
                            };
                            step_clean = known && settled_before;
                            settime_in_hold = false;
                        }
                        hold_n += 1;
                        seg_n += 1;
                        let e = y - hold_x;
                        let e_prev = y_prev - hold_x;
                        if seg_n == 1 {
                            seg_e1 = e;
                        }
                        if seg_n == 2 {
                            seg_e2 = e;
                        }
                        if hold_n >= 2 {
                            // ---------------- C13 monotone approach, no ringing ----------------
                            if e.abs() > e_prev.abs() + tol {
                                fail!("C13", "moves-away", format!("input held at {:e}: |output - input| grew {:e} -> {:e} (resolution {:e}); time in effect {:?}", hold_x, e_prev.abs(), e.abs(), tol, cur.map(|c| c.t)), i, Some(k));
                            }
                            if e.abs() > tol && e_prev.abs() > tol && (e > 0.0) != (e_prev > 0.0) {
                                fail!("C13", "rings", format!("input held at {:e}: the output crossed the target, error {:e} -> {:e} (resolution {:e}); time in effect {:?}", hold_x, e_prev, e, tol, cur.map(|c| c.t)), i, Some(k));
                            }
                        }
                        if known {
                            let c = cur.unwrap();
                            // ---------------- C13 settles: bounded progress ----------------
                            // the error shrinks at least as fast as the RC law of the time in effect (2 % slack on 1-a),
                            // down to the filter resolution: |e_n| <= |e_1| * a^(n-1) + resolution
                            // (C13 does not pin the speed; C14 allows a cutoff down to 0.813/t, hence the factor)
                            let a_env = 1.0 - 0.78 * (1.0 - c.a_hi);
                            if seg_n == 1 {
                                env = e.abs();
                                env_slow = e.abs();
                                env_settled = false;
                            } else {
                                env *= a_env;
                                env_slow *= 1.0 - 0.78 * (1.0 - a_slowest.max(c.a_hi));
                            }
                            let tol_slow = (EPS2 * m_abs + 4.0e-45) / (1.0 - a_slowest.max(c.a_hi)) + carry;
                            if e.abs() > env * (1.0 + 1e-9) + tol && !(e.abs() > env_slow * (1.0 + 1e-9) + tol_slow) {
                                // slower than the time in effect by C14's dead-band rule, but not slower than another time
                                // that was requested earlier: a question of which request is honoured, not of settling
                                rep.count("glide.c13_settle_explained_by_an_earlier_request", 1);
                            } else if e.abs() > env * (1.0 + 1e-9) + tol {
                                fail!("C13", "does-not-settle", format!("input held at {:e}: {} samples into the hold the output is still {:e} away; converging at the rate of the time in effect ({} s) it would be within {:e} (+ resolution {:e})", hold_x, seg_n, e.abs(), c.t, env, tol), i, Some(k));
                            }
                            if !env_settled && env < res && seg_n > 1 {
                                env_settled = true;
                                c_settled += 1;
                                let r = e.abs() / (env + tol);
                                if r > max_settle {
                                    max_settle = r;
                                }
                            }
                            // ---------------- C14 fastest response ----------------
                            if c.fastest && seg_n == 9 {
                                c_fast_settled += 1;
                                if e.abs() > tol {
                                    fail!("C14", "fastest-not-settled", format!("time {} s is shorter than two samples but 8 samples later the output is still {:e} from the held input {:e} (resolution {:e})", c.t, e.abs(), hold_x, tol), i, Some(k));
                                }
                            }
                            // ---------------- C14 step-response points ----------------
                            let step = hold_x - step_from;
                            if step_clean && !settime_in_hold && c.specified && step.abs() > 20.0 * tol {
                                let nt = (c.t as f64).min(10.0) * fs64;
                                let n_full = nt.ceil() as u64;
                                let n_tenth = (nt / 10.0).ceil() as u64;
                                let cov = (y - step_from) / step;
                                let slack = tol / step.abs();
                                if hold_n == n_tenth {
                                    c_step_pts += 1;
                                    let dec = (nt.max(1.0).log10().floor() as usize).min(6);
                                    step_pts_by_decade[dec] += 1;
                                    if step.abs() < 1e-30 {
                                        step_pts_tiny += 1;
                                    }
                                    rep.max("glide.covered_at_t_over_10.max", cov);
                                    rep.max("glide.covered_at_t_over_10.neg_min", -cov);
                                    if !(cov >= 0.40 - slack && cov <= 0.55 + slack) {
                                        fail!("C14", "tenth-point", format!("after t/10 ({} samples of t={} s) the output has covered {:.4} of the step {:e} -> {:e}; an RC lag with time constant t/2pi covers 0.40..0.55", hold_n, c.t, cov, step_from, hold_x), i, Some(k));
                                    }
                                }
                                if hold_n == n_full {
                                    c_step_pts += 1;
                                    rep.max("glide.covered_at_t.neg_min", -cov);
                                    if !(cov >= 0.995 - slack) {
                                        fail!("C14", "full-point", format!("after t ({} samples of t={} s) the output has covered only {:.5} of the step {:e} -> {:e} (needs 0.995)", hold_n, c.t, cov, step_from, hold_x), i, Some(k));
                                    }
                                }
                            }
                            // ---------------- C14 dead band: the pole is estimated from the outputs ----------------
                            if c.specified && (c.t as f64) <= 1.0 && (c.t as f64) * fs64 <= 1e5 {
                                let a = c.a_hi;
                                let win = ((0.7f64).ln() / a.ln()).ceil().max(4.0) as u64;
                                if seg_n == 2 + win && seg_e2.abs() > 400.0 * tol && e.abs() > 200.0 * tol && e / seg_e2 > 0.0 {
                                    let a_est = (e / seg_e2).powf(1.0 / win as f64);
                                    let err = ((1.0 - a_est) - (1.0 - a)).abs() / (1.0 - a);
                                    c_pole_est += 1;
                                    pole_by_decade[(((c.t as f64) * fs64).max(1.0).log10().floor() as usize).min(6)] += 1;
                                    if err > max_pole_err {
                                        max_pole_err = err;
                                    }
                                    // C14 pins the speed only through its two points: 40..55 % after t/10 and 99.5 % after t
                                    // mean a cutoff of 0.813..1.271 (resp. >= 0.843) times 1/t; any pole in that band conforms
                                    if !((1.0 - a_est) >= 0.80 * (1.0 - a) - 1.0 / 4_194_304.0 && (1.0 - a_est) <= 1.30 * (1.0 - a) + 1.0 / 4_194_304.0) {
                                        let t_est = 2.0 * std::f64::consts::PI / ((1.0 - a_est) * fs64);
                                        fail!("C14", "time-in-effect", format!("the output decays with pole {:.6} (a time of about {:.4} s) but the time in effect must be {} s (pole {:.6}): a set_time call was ignored or honoured against the 0.05 s dead-band rule, or the time is mapped wrongly", a_est, t_est, c.t, a), i, Some(k));
                                    }
                                }
                            }
                        }
                    }
                    y_prev = y;
                    x_prev = Some(x);
                }
            }
        }
    }
    rep.evaluations += n_eval;
    rep.count("glide.holds", c_holds);
    rep.count("glide.set_time.honoured", c_honoured);
    rep.count("glide.set_time.ignored_in_dead_band", c_ignored);
    rep.count("glide.switch_to_le_2_samples_mid_glide", c_switch_fast);
    rep.count("glide.settle_checks", c_settled);
    rep.count("glide.fastest_settle_checks", c_fast_settled);
    rep.count("glide.pole_estimates", c_pole_est);
    rep.count("glide.step_response_points", c_step_pts);
    for d in 2..6 {
        rep.count(&format!("glide.step_response_points.t_fs_1e{}", d), step_pts_by_decade[d]);
        if d < 5 {
            rep.count(&format!("glide.pole_estimates.t_fs_1e{}", d), pole_by_decade[d]);
        }
    }
    rep.count("glide.step_response_points.step_below_1e-30", step_pts_tiny);
    rep.count("glide.histories", 1);
    rep.max("glide.max_range_excess_over_resolution", max_over);
    rep.max("glide.max_settle_error_over_resolution", max_settle);
    rep.max("glide.max_relative_pole_error", max_pole_err);
    None
}

// ------------------------------------------------------------------------------------------------
// workloads

pub const FS_LIST: [f32; 12] = [100.0, 128.0, 441.0, 999.0, 1000.0, 1024.0, 3000.0, 8000.0, 22050.0, 44100.0, 47999.0, 48000.0];

pub fn pick_fs(r: &mut Rng) -> f32 {
    if r.chance(0.5) {
        *r.pick(&FS_LIST)
    } else {
        r.log_uniform(100.0, 48000.0) as f32
    }
}

/// generator-side copy of the dead-band rule, used only to steer clear of its edge
struct TimeGen {
    eff: Option<f32>,
}

impl TimeGen {
    fn request(&mut self, t: f32) -> f32 {
        let mut t = t;
        if let Some(e) = self.eff {
            let d = (t as f64 - e as f64).abs();
            if (d - 0.05).abs() < 1e-4 {
                t += 0.001;
            }
            if ((t as f64) - (e as f64)).abs() > 0.05 {
                self.eff = Some(t);
            }
        } else {
            self.eff = Some(t);
        }
        t
    }
}

fn pick_time(r: &mut Rng, fs: f32, max_samples: f64) -> f32 {
    let t = match r.below(12) {
        // zero of either sign is "glide off"
        0 => if r.chance(0.3) { -0.0 } else { 0.0 },
        1 => (*r.pick(&[0.5f64, 1.0, 1.5, 1.99, 2.0, 2.01, 3.0, 4.0, 5.0, 8.0, 50.0, 99.0, 100.0, 101.0]) / fs as f64) as f32,
        2 => *r.pick(&[10.0f32, 9.99, 10.5, 12.0, 100.0, 1e30, 1e-30, 1e-45, 0.05, 0.1, 1.0]),
        3 | 4 => r.log_uniform(0.5 / fs as f64, 200.0 / fs as f64) as f32,
        _ => r.log_uniform(100.0 / fs as f64, 10.0) as f32,
    };
    let cap = (max_samples / fs as f64) as f32;
    if t.min(10.0) > cap {
        cap
    } else {
        t
    }
}

fn pick_level(r: &mut Rng) -> f32 {
    match r.below(8) {
        0 => 0.0,
        1 => *r.pick(&[1.0f32, -1.0, 10.0, -10.0, 5.0, 1e-3, 1e3, -1e3]),
        2 => r.uniform(0.0, 10.0) as f32,
        _ => r.uniform(-10.0, 10.0) as f32,
    }
}

/// piecewise-constant inputs with set_time changes at arbitrary points
pub fn gen_mixed(r: &mut Rng, max_samples: f64, n_seg: usize) -> History {
    let fs = pick_fs(r);
    let mut tg = TimeGen { eff: None };
    let mut ops = vec![Op::SetTime(tg.request(pick_time(r, fs, max_samples)))];
    // whole histories at other signal scales (fine pitch offsets, large control values)
    // (up to 3e38: the largest level drawn is 1e3 * scale, which must stay finite through b0*x + b1*x1 - a1*y1)
    let scale = *r.pick(&[1.0f32, 1.0, 1.0, 1e-2, 1e-4, 3e-5, 1e2, 1e20, 3e35, 1e-30, 1e-34, 1e-36]);
    let pick_level = |r: &mut Rng| pick_level(r) * scale;
    for _ in 0..n_seg {
        let teff = tg.eff.unwrap().min(10.0) as f64;
        let nt = (teff * fs as f64).max(4.0);
        match r.below(10) {
            0 | 1 => {
                ops.push(Op::SetTime(tg.request(pick_time(r, fs, max_samples))));
                // half of the time the input that was being held stays put across the change
                if r.chance(0.5) {
                    if let Some(Op::Hold(x, _)) = ops.iter().rev().find(|o| matches!(o, Op::Hold(_, _))).cloned() {
                        if matches!(ops[ops.len() - 2], Op::Hold(_, _)) {
                            ops.push(Op::Hold(x, 8 + r.below(60)));
                        }
                    }
                }
            }
            2 => {
                let (a, b) = (pick_level(r), pick_level(r));
                ops.push(Op::Noise(r.next_u64(), 1 + r.below(200), a.min(b), a.max(b)));
            }
            4 if r.chance(0.5) => {
                // freeze a glide where it is (the output fed back as the input), then a small step from there
                ops.push(Op::Hold(pick_level(r), 1 + (nt * r.uniform(0.02, 0.5)) as u64));
                ops.push(Op::Feedback(1 + r.below(6)));
                let last = pick_level(r);
                ops.push(Op::Hold(last, (nt * 1.2) as u64 + 20));
            }
            3 => {
                // switch to a (nearly) instantaneous setting in the middle of a glide
                ops.push(Op::Hold(pick_level(r), 1 + (nt * r.uniform(0.02, 0.4)) as u64));
                let fast = (*r.pick(&[0.0f64, 0.5, 1.0, 1.9, 2.0, 3.0, 4.0]) / fs as f64) as f32;
                ops.push(Op::SetTime(tg.request(fast)));
                if let Some(Op::Hold(x, _)) = ops.iter().rev().nth(1).cloned() {
                    ops.push(Op::Hold(x, 12 + r.below(40)));
                }
            }
            _ => {
                let len = match r.below(6) {
                    0 => 1,
                    1 => 2 + r.below(6),
                    2 => (nt * 1.3) as u64 + 20,
                    3 => (nt * 3.0) as u64 + 40,
                    _ => (nt * r.unit()) as u64 + 1,
                };
                ops.push(Op::Hold(pick_level(r), len));
            }
        }
    }
    History { fs, ops }
}

/// C14: one clean step on a fresh processor at (fs, t), optional offset
/// C14: a glide toward `far` frozen part-way by feeding the output back, then a clean step of `step` from there
pub fn gen_frozen_step(fs: f32, t: f32, far: f32, frac: f64, step: f32) -> History {
    let nt = (t.min(10.0) as f64) * fs as f64;
    let n = nt.ceil() as u64 + 3;
    // the step is relative: Hold takes an absolute level, so the executor needs the frozen level; it is reached by a
    // dedicated replayable op sequence: hold(far) for a fraction of t, feedback, then RelStep
    History { fs, ops: vec![Op::SetTime(t), Op::Hold(far, 1 + (nt * frac) as u64), Op::Feedback(8), Op::RelStep(step, n)] }
}

pub fn gen_step(fs: f32, t: f32, from: f32, to: f32) -> History {
    let mut ops = Vec::new();
    let n = ((t.min(10.0) as f64) * fs as f64).ceil() as u64 + 3;
    if from != 0.0 {
        ops.push(Op::SetTime(0.0));
        ops.push(Op::Hold(from, 24));
    }
    ops.push(Op::SetTime(t));
    ops.push(Op::Hold(to, n));
    History { fs, ops }
}

/// C14: sequences of nearby / far set_time calls, the pole being measured after each one
pub fn gen_dead_band(r: &mut Rng) -> History {
    // stay where "honoured" and "ignored" differ by >= 5 % in 1-a: t <= 1 s, 100 <= t*fs <= 1e5
    let fs = *r.pick(&[1000.0f32, 3000.0, 8000.0, 22050.0, 48000.0, 999.0, 12345.0]);
    let lo = (100.0 / fs as f64).max(0.02);
    let mut tg = TimeGen { eff: None };
    let mut t = r.uniform(lo, 0.9);
    let mut ops = Vec::new();
    let mut level = 1.0f32;
    let style = r.below(5);
    for k in 0..(6 + r.below(10)) {
        if style == 4 {
            // A ... B, A' back to back (no sample processed in between): B is honoured, then A' is honoured
            let a = r.uniform(lo, 0.9) as f32;
            let b = (a as f64 + r.uniform(0.08, 0.5) * if r.chance(0.5) { 1.0 } else { -1.0 }).clamp(lo, 1.0) as f32;
            let a2 = (a as f64 + r.uniform(-0.045, 0.045)).clamp(lo, 1.0) as f32;
            for (j, tt) in [a, b, a2].into_iter().enumerate() {
                let sent = tg.request(tt);
                ops.push(Op::SetTime(sent));
                if j == 0 || j == 2 {
                    let teff = tg.eff.unwrap() as f64;
                    let pa = pole(teff, fs as f64);
                    let win = ((0.7f64).ln() / pa.ln()).ceil().max(4.0) as u64;
                    level = if level > 0.0 { -1.0 - r.unit() as f32 } else { 1.0 + r.unit() as f32 };
                    ops.push(Op::Hold(level, win + 6));
                }
            }
            continue;
        }
        let req = match style {
            0 => t + 0.04 * k as f64,                                           // drift chain: each step is inside the band of the previous request
            1 => t + if k % 2 == 0 { 0.0 } else { r.uniform(-0.049, 0.049) },   // flapping inside the band
            2 => r.uniform(lo, 1.0),                                            // jumps
            _ => t + r.uniform(-0.12, 0.12),                                    // around the band edge
        };
        let req = (req.clamp(lo, 1.0)) as f32;
        let sent = tg.request(req);
        ops.push(Op::SetTime(sent));
        if style == 3 {
            t = tg.eff.unwrap() as f64;
        }
        let teff = tg.eff.unwrap() as f64;
        let a = pole(teff, fs as f64);
        let win = ((0.7f64).ln() / a.ln()).ceil().max(4.0) as u64;
        level = if level > 0.0 { -1.0 - r.unit() as f32 } else { 1.0 + r.unit() as f32 };
        ops.push(Op::Hold(level, win + 6));
    }
    History { fs, ops }
}

pub fn run_and_record(h: &History, want: &str, rep: &mut Report, sample: bool) {
    if sample {
        rep.sample(h.brief());
    }
    if let Some(v) = execute(h, want, rep) {
        rep.violate(shrink(h, want, v));
    }
}

pub fn shrink(h: &History, want: &str, v: Violation) -> Violation {
    let base = match Text::parse(&v.replay).ok().and_then(|t| History::parse(&t).ok()) {
        Some(c) => c,
        None => return v,
    };
    let total: u64 = base.ops.iter().map(|o| match o {
        Op::Hold(_, n) | Op::Noise(_, n, _, _) | Op::Feedback(n) | Op::RelStep(_, n) => *n,
        _ => 1,
    }).sum();
    if base.ops.len() > 2000 || total > 300_000 {
        return v;
    }
    let sig = v.signature.clone();
    let fails = |ops: &[Op]| {
        let hh = History { fs: h.fs, ops: ops.to_vec() };
        let mut scratch = Report::new();
        matches!(execute(&hh, want, &mut scratch), Some(x) if x.signature == sig)
    };
    let ops = crate::report::shrink_ops(&base.ops, 400, fails);
    let hh = History { fs: h.fs, ops };
    let mut scratch = Report::new();
    match execute(&hh, want, &mut scratch) {
        Some(x) if x.signature == sig => x,
        _ => v,
    }
}

/// C14: times above 10 s behave like 10 s, sample for sample (twin processors, bit-equal outputs)
pub fn twin_slow_clamp(ctx: &Ctx, rep: &mut Report) {
    let mut r = Rng::derive(ctx.seed, "glide.twin", 0);
    let n = ctx.budget(2, 100, 4000);
    for _ in 0..n {
        let fs = pick_fs(&mut r);
        let t = *r.pick(&[10.000_001f32, 10.06, 11.0, 20.0, 1e3, 1e30, f32::MAX]);
        let res = guard(|| {
            let mut a = GlideProcessor::new(fs);
            let mut b = GlideProcessor::new(fs);
            a.set_time(10.0);
            b.set_time(t);
            let mut rr = r.clone();
            let mut x = 1.0f32;
            for k in 0..3000u32 {
                if k % 500 == 0 {
                    x = rr.uniform(-5.0, 5.0) as f32;
                }
                let (ya, yb) = (a.process(x), b.process(x));
                if ya.to_bits() != yb.to_bits() {
                    return Some((k, ya, yb));
                }
            }
            None
        });
        rep.evaluations += 3000;
        rep.count("glide.twin_slow_clamp_runs", 1);
        let h = History { fs, ops: vec![Op::SetTime(t), Op::Hold(1.0, 3000)] };
        match res {
            Ok(None) => {}
            Ok(Some((k, ya, yb))) => rep.violate(Violation { clause: "slow-clamp".into(), signature: "C14:slow-clamp".into(), message: format!("fs={}: set_time({}) differs from set_time(10) at sample {}: {} vs {}", fs, t, k, yb, ya), replay: h.to_text("C14", 9, None) }),
            Err(p) => rep.violate(Violation { clause: "panic".into(), signature: format!("C14:panic:{}", p), message: format!("fs={} set_time({}) panicked: {}", fs, t, p), replay: h.to_text("C14", 9, None) }),
        }
    }
}

/// a hold at (or a few ulps / percent below) +-f32::MAX over the (fs, t) plane, then ordinary levels again
pub fn largest_finite_histories(small: bool) -> Vec<History> {
    let mut v = Vec::new();
    let fss: &[f32] = if small { &[100.0] } else { &[100.0, 1000.0, 8000.0, 48000.0] };
    let ts: &[f32] = if small { &[0.0, 0.525] } else { &[0.0, 0.01, 0.1, 0.525, 2.0, 10.0] };
    let levels: &[f32] = if small { &[f32::MAX, 3.3e38] } else { &[f32::MAX, f32::from_bits(f32::MAX.to_bits() - 1), f32::from_bits(f32::MAX.to_bits() - 8), 3.4e38, 3.3e38] };
    for fs in fss {
        for t in ts {
            for (li, l) in levels.iter().enumerate() {
                let n = (((8.0 * *t as f64 * *fs as f64).ceil() as u64) + 400).min(if small { 600 } else { 200_000 });
                let x = if li % 2 == 0 { *l } else { -*l };
                v.push(History { fs: *fs, ops: vec![Op::SetTime(*t), Op::Hold(x, n), Op::Hold(1.0, 50), Op::SetTime(0.0), Op::Hold(0.5, 10)] });
            }
        }
    }
    v
}

pub fn run(ctx: &Ctx, prop: &str) -> Report {
    let mut rep = Report::new();
    let small = ctx.tier == Tier::Small;
    let stage = |name: &str, r: Report, rep: &mut Report, t0: std::time::Instant| {
        let ev = r.evaluations;
        rep.merge(r);
        rep.stages.push((name.to_string(), t0.elapsed().as_secs_f64(), ev));
    };
    // (1) the (fs, t) plane: clean steps of both signs, several sizes and offsets
    let t0 = std::time::Instant::now();
    let n_pts = ctx.budget(6, 3_000, 100_000) as usize;
    let shards = if small { 1 } else { 64 };
    let r = par_shards(ctx, shards, |sh| {
        let mut rep = Report::new();
        let mut r = Rng::derive(ctx.seed, "glide.plane", sh as u64);
        for j in 0..(n_pts + shards - 1) / shards {
            let fs = pick_fs(&mut r);
            let max_n: f64 = if small { 300.0 } else if j % 40 == 0 { 10.0 * fs as f64 } else { 20_000.0 };
            let t = match j % 8 {
                0 => (r.log_uniform(100.0, max_n.max(101.0)) / fs as f64) as f32,
                1 => (100.0 / fs as f64) as f32 * 1.0001,
                2 => (r.uniform(0.0, 1.99) / fs as f64) as f32,
                3 => if j % 16 == 3 { -0.0 } else { 0.0 },
                4 => (r.log_uniform(2.0, 100.0) / fs as f64) as f32,
                _ => (r.log_uniform(100.0, max_n.max(101.0)) / fs as f64) as f32,
            };
            let (from, to) = match r.below(5) {
                0 => (0.0, 1.0),
                1 => (0.0, -(r.uniform(0.1, 10.0) as f32)),
                2 => (r.uniform(-3.0, 3.0) as f32, r.uniform(-3.0, 3.0) as f32 + 4.0),
                3 => (5.0, 4.0),
                _ => (0.0, (if r.chance(0.15) { r.log_uniform(1e-37, 1e-30) } else { r.log_uniform(1e-5, 10.0) }) as f32 * if r.chance(0.5) { 1.0 } else { -1.0 }),
            };
            let from = if t > 0.0502 { from } else { 0.0 };
            let h = if j % 6 == 5 && (t as f64) * fs as f64 >= 100.0 {
                gen_frozen_step(fs, t, to * 3.0 + 1.0, r.uniform(0.05, 0.6), (to - from) * 0.1)
            } else {
                gen_step(fs, t, from, to)
            };
            run_and_record(&h, prop, &mut rep, sh == 0 && j < 2);
            rep.class(("plane", (t as f64 * fs as f64).max(0.1).log10().floor() as i64, (fs as f64).log10().floor() as i64, from != 0.0, to > from));
        }
        rep
    });
    stage("glide.step_plane", r, &mut rep, t0);
    // (2) dead-band sequences
    let t0 = std::time::Instant::now();
    let n_db = ctx.budget(3, 4_000, 300_000) as usize;
    let r = par_shards(ctx, shards, |sh| {
        let mut rep = Report::new();
        let mut r = Rng::derive(ctx.seed, "glide.deadband", sh as u64);
        for j in 0..(n_db + shards - 1) / shards {
            let h = gen_dead_band(&mut r);
            run_and_record(&h, prop, &mut rep, sh == 0 && j < 1);
        }
        rep
    });
    stage("glide.dead_band_sequences", r, &mut rep, t0);
    // (3) mixed hostile histories
    let t0 = std::time::Instant::now();
    let n_mix = ctx.budget(8, 15_000, 1_500_000) as usize;
    let r = par_shards(ctx, shards, |sh| {
        let mut rep = Report::new();
        let mut r = Rng::derive(ctx.seed, "glide.mixed", sh as u64);
        for j in 0..(n_mix + shards - 1) / shards {
            let max_n = if small { 200.0 } else if j % 50 == 0 { 480_000.0 } else { 5_000.0 };
            let mut h = gen_mixed(&mut r, max_n, if small { 8 } else { 30 });
            if prop == "C13" {
                // C13 is stated for times in [0, 10] s (what happens above is C14's clause "behaves like 10 s")
                for op in h.ops.iter_mut() {
                    if let Op::SetTime(t) = op {
                        if *t > 10.0 {
                            *t = 10.0;
                        }
                    }
                }
            }
            run_and_record(&h, prop, &mut rep, sh == 0 && j < 2);
        }
        rep
    });
    stage("glide.mixed_histories", r, &mut rep, t0);
    if !small {
        // full-scale swings between the largest finite magnitudes the filter can carry (+-3e38), at several settings
        let t0 = std::time::Instant::now();
        let mut r = Report::new();
        for (fs, t) in [(1000.0f32, 0.0f32), (48000.0, 0.01), (100.0, 2.0), (8000.0, 0.3)] {
            let n = ((t as f64) * fs as f64).ceil() as u64 + 30;
            let ops = vec![Op::SetTime(t), Op::Hold(-3e38, n), Op::Hold(3e38, n), Op::Hold(-3e38, 3), Op::Hold(3e38, 2), Op::Hold(0.0, n), Op::Hold(3e38, 1), Op::Hold(-3e38, n)];
            run_and_record(&History { fs, ops }, prop, &mut r, false);
            r.count("glide.full_scale_swing_histories", 1);
        }
        stage("glide.full_scale_swings", r, &mut rep, t0);
    }
    if prop == "C13" {
        // holds at and next to the largest finite f32, then back to ordinary levels (the filter's rounding may carry
        // the state past f32::MAX there: KNOWN_FINDINGS F11)
        let t0 = std::time::Instant::now();
        let hs = largest_finite_histories(small);
        let r = par_shards(ctx, hs.len(), |j| {
            let mut rep = Report::new();
            run_and_record(&hs[j], prop, &mut rep, false);
            rep.count("glide.largest_finite_input_histories", 1);
            rep
        });
        stage("glide.largest_finite_inputs", r, &mut rep, t0);
    }
    if !small {
        // more than 2^16 set_time calls on one processor (alternating far apart, a few samples in between)
        let t0 = std::time::Instant::now();
        let mut r = Report::new();
        let fs = 8000.0f32;
        let mut ops = Vec::new();
        for k in 0..70_000u32 {
            ops.push(Op::SetTime(if k % 2 == 0 { 0.05 } else { 0.2 }));
            ops.push(Op::Hold(if k % 6 < 3 { 1.0 } else { -1.0 }, 3));
        }
        ops.push(Op::SetTime(0.5));
        ops.push(Op::Hold(2.0, 5000));
        run_and_record(&History { fs, ops }, prop, &mut r, false);
        r.count("glide.many_set_time_histories", 1);
        stage("glide.many_set_time_calls", r, &mut rep, t0);
    }
    if prop == "C14" {
        let t0 = std::time::Instant::now();
        let mut r = Report::new();
        twin_slow_clamp(ctx, &mut r);
        stage("glide.twin_slow_clamp", r, &mut rep, t0);
    }
    if !small {
        rep.floor("glide.switch_to_le_2_samples_mid_glide", 500);
        rep.floor("glide.settle_checks", 1000);
        rep.floor("glide.fastest_settle_checks", 200);
        rep.floor("glide.pole_estimates", 1000);
        rep.floor("glide.step_response_points", 200);
        // the eligibility conditions of the step and pole checks must not silently exclude a region
        for d in 2..6 {
            rep.floor(&format!("glide.step_response_points.t_fs_1e{}", d), if d == 5 { 3 } else { 20 });
        }
        for d in 2..5 {
            rep.floor(&format!("glide.pole_estimates.t_fs_1e{}", d), 50);
        }
        rep.floor("glide.step_response_points.step_below_1e-30", 10);
        rep.floor("glide.set_time.ignored_in_dead_band", 200);
    }
    rep
}

pub fn replay(t: &Text, want: &str, rep: &mut Report) -> Result<Option<Violation>, String> {
    let h = History::parse(t)?;
    Ok(execute(&h, want, rep))
}
