#!/bin/sh
# setup_cmd: build the monitored harness offline from files on disk (rebuilt incrementally by every check)
set -e
cd "$(dirname "$0")"
export CARGO_NET_OFFLINE=true
export CARGO_TARGET_DIR=/verif/.target
cargo build --offline --profile verif --manifest-path harness/Cargo.toml --bin run
# warm the Miri build of the harness (used by the C17 quick check); a failure here is reported by that check, not by setup
MIRIFLAGS=-Zmiri-disable-isolation CARGO_TARGET_DIR=/verif/.target/miri-target cargo +nightly miri run --offline --manifest-path harness/Cargo.toml --bin run -- C20 --tier small --scale 0.001 --out /dev/null >/dev/null 2>&1 || echo "warning: Miri warm-up failed"
echo "setup ok"
