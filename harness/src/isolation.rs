//! Instance isolation: what an object reports is a function of the calls made on *that* object. Two histories of
//! the same module are run (i) each alone on a fresh instance and (ii) interleaved call by call on two instances
//! living side by side in one thread. Every observation of (ii) must be bit-identical to the one made at the same
//! point of (i). State shared between instances (a `static` cache of the last coefficients / table cell / parsed
//! message, a process-wide counter) makes the interleaved run differ. The report goes to the property that owns
//! the output: ADSR value -> C01, LFO shapes -> C10, glide output -> C13, quantizer conversions -> C07, MIDI note
//! outputs -> C04 and controller outputs -> C18 (both under C06), ribbon pressing -> C15 and value -> C16.

use crate::replay::Text;
use crate::report::{guard, par_shards, Ctx, Report, Tier, Violation};
use crate::rng::Rng;
use crate::{adsr, glide, lfo, midi, quant, ribbon};
use synth_utils::adsr::{Adsr, Input};
use synth_utils::glide_processor::GlideProcessor;
use synth_utils::lfo::{Lfo, Waveshape};
use synth_utils::mono_midi_receiver::{MonoMidiReceiver, NotePriority, RetriggerMode};
use synth_utils::quantizer::{Note, Quantizer};

/// one instance driven through its history one call at a time; every step returns a digest of everything observable
type Stepper = Box<dyn FnMut() -> Option<u64>>;

fn fnv(parts: &[u64]) -> u64 {
    let mut h: u64 = 0xcbf29ce484222325;
    for p in parts {
        for b in p.to_le_bytes() {
            h ^= b as u64;
            h = h.wrapping_mul(0x100000001b3);
        }
    }
    h
}

const SHAPES: [Waveshape; 5] = [Waveshape::Sine, Waveshape::Triangle, Waveshape::UpSaw, Waveshape::DownSaw, Waveshape::Square];

fn adsr_stepper(h: adsr::History) -> Stepper {
    let mut a = Adsr::new(h.fs);
    // flatten: one call per step, long tick runs capped
    let mut calls: Vec<(u8, f32)> = Vec::new();
    for op in &h.ops {
        match op {
            adsr::Op::GateOn => calls.push((0, 0.0)),
            adsr::Op::GateOff => calls.push((1, 0.0)),
            adsr::Op::Tick(n) => (0..(*n).min(400)).for_each(|_| calls.push((2, 0.0))),
            adsr::Op::Attack(x) => calls.push((3, *x)),
            adsr::Op::Decay(x) => calls.push((4, *x)),
            adsr::Op::Sustain(x) => calls.push((5, *x)),
            adsr::Op::Release(x) => calls.push((6, *x)),
            adsr::Op::SetStorm(which, x, y, n) => {
                for k in 0..(*n).min(6) {
                    calls.push(([3u8, 4, 6, 5][(*which % 4) as usize], if k % 2 == 0 { *x } else { *y }));
                }
            }
        }
    }
    let mut i = 0;
    Box::new(move || {
        let (c, x) = *calls.get(i)?;
        i += 1;
        match c {
            0 => a.gate_on(),
            1 => a.gate_off(),
            2 => a.tick(),
            3 => a.set_input(Input::Attack(x.into())),
            4 => a.set_input(Input::Decay(x.into())),
            5 => a.set_input(Input::Sustain(x.into())),
            _ => a.set_input(Input::Release(x.into())),
        }
        Some(fnv(&[a.value().to_bits() as u64]))
    })
}

fn lfo_stepper(h: lfo::History) -> Stepper {
    let mut a = Lfo::new(h.fs);
    let mut calls: Vec<(u8, f32)> = Vec::new();
    for op in &h.ops {
        match op {
            lfo::Op::Reset => calls.push((0, 0.0)),
            lfo::Op::SetPhase(p) => calls.push((1, *p)),
            lfo::Op::SetFreq(x) => calls.push((2, *x)),
            lfo::Op::Tick(n) => (0..(*n).min(300)).for_each(|_| calls.push((3, 0.0))),
            lfo::Op::Read(_) | lfo::Op::LandOn(_) => calls.push((3, 0.0)),
        }
    }
    let mut i = 0;
    Box::new(move || {
        let (c, x) = *calls.get(i)?;
        i += 1;
        match c {
            0 => a.reset(),
            1 => a.set_phase(x),
            2 => a.set_frequency(x),
            _ => a.tick(),
        }
        let v: Vec<u64> = SHAPES.iter().map(|s| a.get(*s).to_bits() as u64).collect();
        Some(fnv(&v))
    })
}

fn glide_stepper(h: glide::History) -> Stepper {
    let mut g = GlideProcessor::new(h.fs);
    let mut calls: Vec<(u8, f32)> = Vec::new();
    for op in &h.ops {
        match op {
            glide::Op::SetTime(t) => calls.push((0, *t)),
            glide::Op::Hold(x, n) => (0..(*n).min(300)).for_each(|_| calls.push((1, *x))),
            glide::Op::Noise(s, n, lo, hi) => {
                let mut r = Rng::new(*s);
                (0..(*n).min(300)).for_each(|_| calls.push((1, r.uniform(*lo as f64, *hi as f64) as f32)));
            }
            glide::Op::Feedback(n) => (0..(*n).min(50)).for_each(|_| calls.push((2, 0.0))),
            glide::Op::RelStep(d, n) => (0..(*n).min(100)).for_each(|_| calls.push((3, *d))),
        }
    }
    let mut i = 0;
    let mut y = 0.0f32;
    Box::new(move || {
        let (c, x) = *calls.get(i)?;
        i += 1;
        match c {
            0 => g.set_time(x),
            1 => y = g.process(x),
            2 => y = g.process(y),
            _ => y = g.process(y + x),
        }
        Some(fnv(&[y.to_bits() as u64]))
    })
}

fn quant_stepper(h: quant::History) -> Stepper {
    let mut q = Quantizer::new();
    let ops = h.ops;
    let mut i = 0;
    Box::new(move || {
        let op = ops.get(i)?;
        i += 1;
        let notes = |v: &Vec<u8>| v.iter().map(|n| Note::from(*n)).collect::<Vec<_>>();
        let mut obs: Vec<u64> = Vec::new();
        match op {
            quant::Op::Allow(v) => q.allow(&notes(v)),
            quant::Op::Forbid(v) => q.forbid(&notes(v)),
            quant::Op::Convert(x) => {
                let c = q.convert(*x);
                obs.extend([c.note_num as u64, c.stairstep.to_bits() as u64, c.fraction.to_bits() as u64]);
            }
            quant::Op::EditStorm(kind, note, n) => {
                for k in 0..(*n).min(5) {
                    if *kind == 0 && k % 2 == 0 {
                        q.allow(&[Note::from(*note)]);
                    } else {
                        q.forbid(&[Note::from(*note)]);
                    }
                }
            }
        }
        obs.push((0..12u8).filter(|k| q.is_allowed(Note::from(*k))).fold(0u64, |m, k| m | 1 << k));
        Some(fnv(&obs))
    })
}

/// group 0: note outputs, group 1: controller outputs, 2: both
fn midi_stepper(h: midi::History, group: u8) -> Stepper {
    let mut m = MonoMidiReceiver::new(h.channel_arg);
    let ops = h.ops;
    let mut i = 0;
    Box::new(move || {
        let op = ops.get(i)?;
        i += 1;
        let mut extra = 2u64;
        match op {
            midi::Op::Byte(x) => m.parse(*x),
            midi::Op::Priority(p) => m.set_note_priority(match p {
                0 => NotePriority::Last,
                1 => NotePriority::High,
                _ => NotePriority::Low,
            }),
            midi::Op::Retrigger(x) => m.set_retrigger_mode(if *x { RetriggerMode::AllowRetrigger } else { RetriggerMode::NoRetrigger }),
            midi::Op::PollRising => extra = m.rising_gate() as u64,
            midi::Op::PollFalling => extra = m.falling_gate() as u64,
            midi::Op::Repeat(bytes, n) => {
                for _ in 0..(*n).min(3) {
                    bytes.iter().for_each(|b| m.parse(*b));
                }
            }
        }
        let o = midi::read_out(&m);
        let notes = [o.gate as u64, o.note as u64, o.vel.to_bits() as u64, extra];
        let ctl = [o.pb.to_bits() as u64, o.mw.to_bits() as u64, o.vol.to_bits() as u64, o.cut.to_bits() as u64, o.res.to_bits() as u64, o.pt.to_bits() as u64, o.pe as u64, o.se as u64];
        Some(match group {
            0 => fnv(&notes),
            1 => fnv(&ctl),
            _ => fnv(&[fnv(&notes), fnv(&ctl)]),
        })
    })
}

/// group 0: pressing and edges only, 1: also value()
fn ribbon_stepper(h: ribbon::History, group: u8) -> Option<Stepper> {
    let mut rb = h.cfg.build()?;
    let mut calls: Vec<(u8, f32)> = Vec::new();
    for op in &h.ops {
        match op {
            ribbon::Op::ReadPressed => calls.push((1, 0.0)),
            ribbon::Op::ReadReleased => calls.push((2, 0.0)),
            ribbon::Op::Poll(x, n) => (0..(*n).min(6_000)).for_each(|_| calls.push((0, *x))),
            ribbon::Op::Rand(s, n, lo, hi) => {
                let mut r = Rng::new(*s);
                (0..(*n).min(6_000)).for_each(|_| calls.push((0, r.uniform(*lo as f64, *hi as f64) as f32)));
            }
        }
    }
    let mut i = 0;
    Some(Box::new(move || {
        let (c, x) = *calls.get(i)?;
        i += 1;
        let mut e = 2u64;
        match c {
            0 => rb.poll(x),
            1 => e = rb.just_pressed() as u64,
            _ => e = rb.just_released() as u64,
        }
        Some(fnv(&[rb.pressing() as u64, e, if group == 1 { rb.value().to_bits() as u64 } else { 0 }]))
    }))
}

fn make_pair(kind: &str, prop: &str, r: &mut Rng, small: bool) -> Option<(Stepper, Stepper, Stepper, Stepper, String)> {
    // every history is built twice from the same seed: once for the solo run, once for the interleaved run
    let seed = r.next_u64();
    let build = |which: u64| -> Option<(Stepper, String)> {
        let mut g = Rng::new(seed ^ which.wrapping_mul(0x9e3779b97f4a7c15));
        Some(match kind {
            "adsr" => {
                let fs = adsr::pick_fs(&mut g);
                let h = adsr::gen_storm(&mut g, fs, if small { 20.0 } else { 200.0 }, if small { 6 } else { 20 }, 0.4);
                let d = format!("adsr fs={} {} ops", h.fs, h.ops.len());
                (adsr_stepper(h), d)
            }
            "lfo" => {
                let h = lfo::random_history(&mut g, if small { 30 } else { 300 }, true);
                let d = format!("lfo fs={} {} ops", h.fs, h.ops.len());
                (lfo_stepper(h), d)
            }
            "glide" => {
                let h = glide::gen_mixed(&mut g, if small { 100.0 } else { 600.0 }, if small { 5 } else { 15 });
                let d = format!("glide fs={} {} ops", h.fs, h.ops.len());
                (glide_stepper(h), d)
            }
            "quant" => {
                let h = quant::gen_random(&mut g, if small { 40 } else { 200 });
                let d = format!("quantizer {} ops", h.ops.len());
                (quant_stepper(h), d)
            }
            "midi" => {
                let h = match g.below(3) {
                    0 => midi::gen_notes(&mut g, if small { 40 } else { 150 }, 0.05, false),
                    1 => midi::gen_controllers_and_notes(&mut g, if small { 60 } else { 200 }),
                    _ => midi::gen_bytes(&mut g, if small { 100 } else { 400 }),
                };
                let d = format!("midi channel_arg={} {} ops", h.channel_arg, h.ops.len());
                (midi_stepper(h, match prop { "C04" => 0, "C18" => 1, _ => 2 }), d)
            }
            _ => {
                let rates: &[u32] = if small { &[100, 1000] } else { &[100, 250, 800, 1000, 2000, 3000, 10_000] };
                let h = if g.chance(0.3) { ribbon::gen_tap_train(&mut g, rates, false) } else { ribbon::gen_history(&mut g, rates, false, if small { 3 } else { 6 }) };
                let d = format!("ribbon rate={} capacity={} {} ops", h.cfg.rate, h.cfg.capacity(), h.ops.len());
                (ribbon_stepper(h, if prop == "C15" { 0 } else { 1 })?, d)
            }
        })
    };
    let (a_solo, da) = build(1)?;
    let (b_solo, db) = build(2)?;
    let (a_pair, _) = build(1)?;
    let (b_pair, _) = build(2)?;
    Some((a_solo, b_solo, a_pair, b_pair, format!("A: {}; B: {}; pair_seed={}", da, db, seed)))
}

/// run one pair; Ok(Some(message)) on a divergence
fn run_pair(kind: &str, prop: &str, job_seed: u64, small: bool) -> Result<(Option<String>, u64), String> {
    let kind = kind.to_string();
    let prop = prop.to_string();
    guard(move || {
        let mut r = Rng::new(job_seed);
        let (mut a_solo, mut b_solo, mut a_pair, mut b_pair, desc) = match make_pair(&kind, &prop, &mut r, small) {
            Some(x) => x,
            None => return (None, 0),
        };
        let mut ta = Vec::new();
        while let Some(x) = a_solo() {
            ta.push(x);
        }
        let mut tb = Vec::new();
        while let Some(x) = b_solo() {
            tb.push(x);
        }
        // interleave: runs of 1..4 calls on one instance, then the other
        let (mut ia, mut ib) = (0usize, 0usize);
        let mut calls = 0u64;
        while ia < ta.len() || ib < tb.len() {
            let on_a = if ia >= ta.len() { false } else if ib >= tb.len() { true } else { r.chance(0.5) };
            for _ in 0..1 + r.below(4) {
                if on_a {
                    match a_pair() {
                        Some(x) => {
                            if x != ta[ia] {
                                return (Some(format!("instance A, call #{}: what it reports differs from the same history run alone, after {} calls on instance B in between [{}]", ia, ib, desc)), calls);
                            }
                            ia += 1;
                        }
                        None => break,
                    }
                } else {
                    match b_pair() {
                        Some(x) => {
                            if x != tb[ib] {
                                return (Some(format!("instance B, call #{}: what it reports differs from the same history run alone, after {} calls on instance A in between [{}]", ib, ia, desc)), calls);
                            }
                            ib += 1;
                        }
                        None => break,
                    }
                }
                calls += 1;
            }
        }
        (None, calls + (ta.len() + tb.len()) as u64)
    })
}

fn kind_of(prop: &str) -> &'static str {
    match prop {
        "C01" => "adsr",
        "C10" => "lfo",
        "C13" => "glide",
        "C07" => "quant",
        "C04" | "C06" | "C18" => "midi",
        _ => "ribbon",
    }
}

fn replay_text(prop: &str, kind: &str, job_seed: u64, small: bool) -> String {
    let mut t = Text::new();
    t.set("property", prop).set("module", "isolation").set("kind", kind).set("job_seed", job_seed.to_string()).set("small", (small as u8).to_string());
    t.ops.push("# both histories and the interleaving are regenerated from job_seed".to_string());
    t.to_text()
}

pub fn run(ctx: &Ctx, prop: &str) -> Report {
    let small = ctx.tier == Tier::Small;
    let kind = kind_of(prop);
    let n = ctx.budget(3, 1_500, 40_000) as usize;
    let shards = if small { 1 } else { 64 };
    par_shards(ctx, shards, |s| {
        let mut rep = Report::new();
        let mut r = Rng::derive(ctx.seed, "isolation", s as u64 ^ fnv(&[prop.len() as u64, prop.as_bytes()[2] as u64]));
        for _ in 0..(n + shards - 1) / shards {
            let job_seed = r.next_u64();
            rep.count("isolation.pairs", 1);
            match run_pair(kind, prop, job_seed, small) {
                Ok((None, calls)) => rep.evaluations += calls,
                Ok((Some(msg), calls)) => {
                    rep.evaluations += calls;
                    rep.violate(Violation { clause: "instances-not-independent".into(), signature: format!("{}:instances-not-independent", prop), message: msg, replay: replay_text(prop, kind, job_seed, small) });
                }
                // a panic is reported by the property's main monitor (and by C17)
                Err(_) => rep.count("isolation.aborted_by_panic", 1),
            }
        }
        rep.class(("isolation", kind.to_string()));
        rep
    })
}

pub fn replay(t: &Text, prop: &str, rep: &mut Report) -> Result<Option<Violation>, String> {
    let kind = t.get("kind")?.to_string();
    let job_seed: u64 = t.get("job_seed")?.parse().map_err(|e| format!("job_seed: {}", e))?;
    let small = t.get("small")? == "1";
    rep.evaluations += 1;
    match run_pair(&kind, prop, job_seed, small) {
        Ok((Some(msg), _)) => Ok(Some(Violation { clause: "instances-not-independent".into(), signature: format!("{}:instances-not-independent", prop), message: msg, replay: t.to_text() })),
        _ => Ok(None),
    }
}
