//! Runtime monitors for synth-utils-rs. See /verif/DESIGN.md.
pub mod adsr;
pub mod c17;
pub mod c20;
pub mod glide;
pub mod isolation;
pub mod json;
pub mod lfo;
pub mod midi;
pub mod quant;
pub mod replay;
pub mod report;
pub mod ribbon;
pub mod rng;
pub mod twins;

use report::{Ctx, Report, Violation};

/// run the full workload of one property
pub fn run_property(ctx: &Ctx, prop: &str) -> Result<Report, String> {
    let mut rep = run_property_main(ctx, prop)?;
    // observation transparency (getters are pure): twins read after every call vs at sparse checkpoints
    let t0 = std::time::Instant::now();
    let extra = match prop {
        "C04" | "C06" | "C18" => Some(("twins.midi_getters_are_pure", twins::midi_transparency(ctx, prop))),
        "C15" | "C16" => Some(("twins.ribbon_getters_are_pure", twins::ribbon_transparency(ctx, prop))),
        "C01" => Some(("twins.adsr_value_is_pure", twins::adsr_transparency(ctx, prop))),
        "C10" => Some(("twins.lfo_get_is_pure", twins::lfo_transparency(ctx, prop))),
        _ => None,
    };
    if let Some((name, r)) = extra {
        let ev = r.evaluations;
        rep.merge(r);
        rep.stages.push((name.to_string(), t0.elapsed().as_secs_f64(), ev));
    }
    // instance isolation: two instances side by side behave as each does alone
    if matches!(prop, "C01" | "C10" | "C13" | "C07" | "C04" | "C06" | "C18" | "C15" | "C16") {
        let t0 = std::time::Instant::now();
        let r = isolation::run(ctx, prop);
        let ev = r.evaluations;
        rep.merge(r);
        rep.stages.push(("isolation.two_instances_side_by_side".to_string(), t0.elapsed().as_secs_f64(), ev));
        if ctx.tier != report::Tier::Small {
            rep.floor("isolation.pairs", 1000);
        }
    }
    Ok(rep)
}

fn run_property_main(ctx: &Ctx, prop: &str) -> Result<Report, String> {
    match prop {
        "C01" | "C02" | "C03" => Ok(adsr::run(ctx, prop)),
        "C04" | "C05" | "C06" | "C18" => Ok(midi::run(ctx, prop)),
        "C07" | "C08" | "C09" | "C19" => Ok(quant::run(ctx, prop)),
        "C10" | "C11" | "C12" => Ok(lfo::run(ctx, prop)),
        "C13" | "C14" => Ok(glide::run(ctx, prop)),
        "C17" => Ok(c17::run(ctx)),
        "C20" => Ok(c20::run(ctx)),
        "C15" | "C16" => Ok(ribbon::run(ctx, prop)),
        _ => Err(format!("unknown property '{}'", prop)),
    }
}

/// re-execute one recorded history under the monitor of `prop`
pub fn replay_property(prop: &str, text: &str, rep: &mut Report) -> Result<Option<Violation>, String> {
    let t = replay::Text::parse(text)?;
    let module = t.get("module")?.to_string();
    if prop == "C17" {
        return c17::replay(&t, rep);
    }
    if prop == "C20" {
        return c20::replay(&t, rep);
    }
    match module.as_str() {
        "isolation" => isolation::replay(&t, prop, rep),
        "twin-midi" => twins::midi_replay(&t, prop, rep),
        "twin-ribbon" => twins::ribbon_replay(&t, prop, rep),
        "twin-adsr" => twins::adsr_replay(&t, prop, rep),
        "twin-lfo" => twins::lfo_replay(&t, prop, rep),
        "lfo" => lfo::replay(&t, prop, rep),
        "adsr" => adsr::replay(&t, prop, rep),
        "midi" => midi::replay(&t, prop, rep),
        "glide" => glide::replay(&t, prop, rep),
        "ribbon" | "ribbon-probe" => ribbon::replay(&t, prop, rep),
        "quantizer" => quant::replay(&t, prop, rep),
        m => Err(format!("unknown replay module '{}'", m)),
    }
}
