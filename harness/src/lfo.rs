//! LFO: recorded histories of reset / set_phase / set_frequency / tick / get, checked by the monitors
//! of C10 (shape, range, phase relations), C11 (phase advance and positioning) and C12 (continuity).
//!
//! The phase counter is read back exactly through the up-saw: k = (UpSaw + 1) * 2^23.

use crate::replay::{f, pf, pu, Text};
use crate::report::{fmt_f32, guard, par_shards, Ctx, Report, Tier, Violation};
use crate::rng::Rng;
use synth_utils::lfo::{Lfo, Waveshape};

pub const TWO24: f64 = 16_777_216.0;
const M24: u32 = (1 << 24) - 1;

#[derive(Clone, Debug, PartialEq)]
pub enum Op {
    Reset,
    SetPhase(f32),
    SetFreq(f32),
    /// n ticks, every one of them observed
    Tick(u64),
    /// read the five shapes twice in two orders derived from the argument
    Read(u8),
    /// closed loop: set the frequency so that the next tick lands exactly on counter value `target` (computed from the
    /// counter read back at that moment; exact when the sample rate is a power of two), then tick once
    LandOn(u32),
}

#[derive(Clone, Debug)]
pub struct History {
    pub fs: f32,
    pub ops: Vec<Op>,
}

impl History {
    pub fn to_text(&self, property: &str, upto_op: usize, ticks_in_last: Option<u64>) -> String {
        let mut t = Text::new();
        t.set("property", property).set("module", "lfo").set("fs", format!("{}  # {}", f(self.fs), self.fs));
        for (i, op) in self.ops.iter().enumerate() {
            if i > upto_op {
                break;
            }
            let s = match op {
                Op::Reset => "reset".to_string(),
                Op::SetPhase(p) => format!("set_phase {}  # {:e}", f(*p), p),
                Op::SetFreq(x) => format!("set_frequency {}  # {:e}", f(*x), x),
                Op::Tick(n) => {
                    let n = if i == upto_op { ticks_in_last.unwrap_or(*n) } else { *n };
                    format!("tick {}", n)
                }
                Op::Read(o) => format!("read {}", o),
                Op::LandOn(k) => format!("land_on {}", k),
            };
            t.ops.push(s);
        }
        t.to_text()
    }
    pub fn parse(t: &Text) -> Result<Self, String> {
        let fs = pf(t.get("fs")?)?;
        let mut ops = Vec::new();
        for l in &t.ops {
            let mut it = l.split_whitespace();
            let name = it.next().unwrap_or("");
            let arg = it.next();
            let op = match name {
                "reset" => Op::Reset,
                "set_phase" => Op::SetPhase(pf(arg.ok_or("arg")?)?),
                "set_frequency" => Op::SetFreq(pf(arg.ok_or("arg")?)?),
                "tick" => Op::Tick(pu(arg.ok_or("arg")?)?),
                "read" => Op::Read(pu(arg.ok_or("arg")?)? as u8),
                "land_on" => Op::LandOn(pu(arg.ok_or("arg")?)? as u32),
                _ => return Err(format!("unknown lfo op '{}'", l)),
            };
            ops.push(op);
        }
        Ok(History { fs, ops })
    }
}

#[derive(Clone, Copy, Debug)]
struct Obs {
    k: u32,
    sine: f32,
    tri: f32,
}

const SHAPES: [Waveshape; 5] =
    [Waveshape::Sine, Waveshape::Triangle, Waveshape::UpSaw, Waveshape::DownSaw, Waveshape::Square];

fn circ(a: u32, b: u32) -> u32 {
    let d = a.wrapping_sub(b) & M24;
    d.min((1 << 24) - d)
}

type Fail = (&'static str, &'static str, String); // (property, clause, message)

/// read all five shapes of `lfo` and check the per-phase clauses of C10
#[inline]
fn observe(lfo: &Lfo, order: u8) -> (Option<Obs>, Option<Fail>) {
    let mut v = [0f32; 5];
    // read in a rotated order: the result must not depend on it
    let rot = (order % 5) as usize;
    for j in 0..5 {
        let i = (j + rot) % 5;
        v[i] = lfo.get(SHAPES[i]);
    }
    let (sine, tri, up, down, sq) = (v[0], v[1], v[2], v[3], v[4]);
    let kf = (up as f64 + 1.0) * 8_388_608.0;
    if !(kf >= 0.0 && kf < TWO24 && kf.fract() == 0.0) {
        return (None, Some(("C10", "upsaw-not-a-phase", format!("UpSaw={} is not 2*k/2^24-1 for an integer counter value k in [0,2^24)", fmt_f32(up)))));
    }
    let k = kf as u32;
    let obs = Some(Obs { k, sine, tri });
    for (name, x) in [("sine", sine), ("triangle", tri), ("upsaw", up), ("downsaw", down), ("square", sq)] {
        if !(x >= -1.0 && x <= 1.0) {
            return (obs, Some(("C10", "range", format!("{}={} outside [-1,1] at k={}", name, fmt_f32(x), k))));
        }
    }
    if down != -up {
        return (obs, Some(("C10", "downsaw", format!("DownSaw={} != -UpSaw={} at k={}", fmt_f32(down), fmt_f32(up), k))));
    }
    let want_sq = if k < (1 << 23) { 1.0 } else { -1.0 };
    if sq != want_sq {
        return (obs, Some(("C10", "square", format!("Square={} at k={} (phase {:.9}), expected {}", sq, k, k as f64 / TWO24, want_sq))));
    }
    let r = k as f64 / TWO24 * 4.0;
    let want_tri = if r < 1.0 {
        r
    } else if r < 3.0 {
        2.0 - r
    } else {
        r - 4.0
    };
    if tri as f64 != want_tri {
        return (obs, Some(("C10", "triangle", format!("Triangle={} at k={} expected exactly {:e}", fmt_f32(tri), k, want_tri))));
    }
    let want_sin = (2.0 * std::f64::consts::PI * k as f64 / TWO24).sin();
    let err = (sine as f64 - want_sin).abs();
    if !(err <= 0.0125) {
        return (obs, Some(("C10", "sine", format!("Sine={} at k={} differs from sin(2*pi*phase)={:.7} by {:.5} > 0.0125", fmt_f32(sine), k, want_sin, err))));
    }
    (obs, None)
}

pub struct Exec<'a> {
    pub rep: &'a mut Report,
    pub want: &'a str,
}

fn wanted(want: &str, prop: &str) -> bool {
    // "the up-saw is exactly 2*phase-1" (C10) refers to the phase that the call history defines, which is what the
    // C11 clauses tie the counter to: a C10 run therefore reports them too
    want == prop || want == "ALL" || (want == "C17" && prop == "C17") || (want == "C10" && prop == "C11")
}

/// Execute one history against the real Lfo with all LFO monitors attached. Returns the first
/// violation of the wanted property (or a panic), with the replay text truncated at the failing call.
pub fn execute(h: &History, want: &str, rep: &mut Report) -> Option<Violation> {
    let fs = h.fs;
    let mk = |prop: &str, clause: &str, msg: String, i: usize, ticks: Option<u64>| -> Violation {
        let prop = if want == "C10" && prop == "C11" { "C10" } else { prop };
        let clause_s = if want == "C10" && !clause.starts_with("phase-") && ["reset", "set_phase", "tick-advance", "tick-not-constant", "set_frequency-phase-jump", "new-not-zero", "set_phase-negative-mod1"].contains(&clause) { format!("phase-not-as-commanded-{}", clause) } else { clause.to_string() };
        let clause = clause_s.as_str();
        Violation {
            clause: clause.to_string(),
            signature: format!("{}:{}", prop, clause),
            message: format!("{} [fs={} op#{} {:?}{}]", msg, fs, i, h.ops[i.min(h.ops.len().saturating_sub(1))], ticks.map(|t| format!(" tick {}", t)).unwrap_or_default()),
            replay: h.to_text(prop, i, ticks),
        }
    };
    let mut lfo = match guard(|| Lfo::new(fs)) {
        Ok(l) => l,
        Err(p) => {
            return Some(Violation { clause: "panic".into(), signature: format!("{}:panic:{}", want, p), message: format!("Lfo::new({}) panicked: {}", fs, p), replay: h.to_text(want, 0, None) })
        }
    };
    let mut freq: f64 = 0.0;
    let mut inc_seen: Option<u32> = None;
    let mut max_sine_err: f64 = 0.0;
    let mut max_sine_slope: f64 = 0.0;
    let mut max_tri_slope: f64 = 0.0;
    let mut max_over: f64 = -1.0;
    let mut max_short: f64 = -1.0;
    let mut n_eval: u64 = 0;
    let mut n_ticks: u64 = 0;
    let mut n_wraps: u64 = 0;
    let mut last_cell: u32 = u32::MAX;

    macro_rules! fail {
        ($prop:expr, $clause:expr, $msg:expr, $i:expr, $ticks:expr) => {
            if wanted(want, $prop) {
                rep.evaluations += n_eval;
                return Some(mk($prop, $clause, $msg, $i, $ticks));
            }
        };
    }
    macro_rules! call {
        ($e:expr, $i:expr, $ticks:expr) => {
            match guard(|| $e) {
                Ok(v) => v,
                Err(p) => {
                    rep.evaluations += n_eval;
                    let prop = want;
                    let mut v = mk(prop, "panic", format!("panicked: {}", p), $i, $ticks);
                    v.signature = format!("{}:panic:{}", prop, p);
                    return Some(v);
                }
            }
        };
    }
    macro_rules! obs {
        ($order:expr, $i:expr, $ticks:expr) => {{
            let (o, f) = call!(observe(&lfo, $order), $i, $ticks);
            if let Some((prop, clause, msg)) = f {
                if wanted(want, prop) {
                    rep.evaluations += n_eval;
                    return Some(mk(prop, clause, msg, $i, $ticks));
                }
                rep.count("lfo.other_property_failures_ignored", 1);
            }
            match o {
                Some(o) => o,
                None => {
                    // cannot continue this history without a phase read-back
                    rep.count("lfo.history_abandoned_no_phase_readback", 1);
                    rep.evaluations += n_eval;
                    return None;
                }
            }
        }};
    }

    let mut cur = obs!(0, 0, None);
    // the observation right after the latest tick: C12 compares consecutive ticks, also across a frequency
    // change or reads in between (cleared when reset / set_phase reposition the oscillator)
    let mut last_tick: Option<Obs> = None;
    // a fresh oscillator sits at phase 0
    if cur.k != 0 {
        fail!("C11", "new-not-zero", format!("fresh Lfo has counter {}", cur.k), 0, None);
    }
    for (i, op0) in h.ops.iter().enumerate() {
        // LandOn is resolved against the counter as read back now: a frequency change followed by one tick
        let expanded: Vec<Op> = match op0 {
            Op::LandOn(target) => {
                let inc = (target & M24).wrapping_sub(cur.k) & M24;
                let fq = (inc as f64 * fs as f64 / TWO24) as f32;
                rep.count("lfo.land_on", 1);
                vec![Op::SetFreq(fq), Op::Tick(1)]
            }
            other => vec![other.clone()],
        };
        for op in expanded.iter() {
        match op {
            Op::LandOn(_) => {}
            Op::Reset => {
                call!(lfo.reset(), i, None);
                cur = obs!(i as u8, i, None);
                last_tick = None;
                n_eval += 1;
                rep.count("lfo.reset", 1);
                if cur.k != 0 {
                    fail!("C11", "reset", format!("counter {} after reset()", cur.k), i, None);
                }
            }
            Op::SetPhase(p) => {
                call!(lfo.set_phase(*p), i, None);
                cur = obs!(i as u8, i, None);
                last_tick = None;
                n_eval += 1;
                let p64 = *p as f64;
                if p64 >= 0.0 {
                    rep.count("lfo.set_phase.nonneg", 1);
                    let fr = p64 - p64.floor();
                    let got = cur.k as f64 / TWO24;
                    let mut d = (got - fr).abs();
                    d = d.min(1.0 - d);
                    if !(d <= 1.0 / 4_194_304.0) {
                        fail!("C11", "set_phase", format!("set_phase({:e}): phase {:.9} but frac(p)={:.9} (|diff|={:e} > 2^-22)", p, got, fr, d), i, None);
                    }
                } else if p64 < 0.0 {
                    rep.count("lfo.set_phase.negative", 1);
                    // depends only on p modulo 1: compare with p-m on a twin, when both are exact
                    let scaled = p64 * 1024.0;
                    if p64.abs() < 8192.0 && scaled.fract() == 0.0 {
                        let m = 1 + (p.to_bits() % 7) as i32;
                        let q = (p64 - m as f64) as f32;
                        if q as f64 == p64 - m as f64 {
                            let k2 = call!(
                                {
                                    let mut twin = Lfo::new(fs);
                                    twin.set_phase(q);
                                    observe(&twin, 0).0.map(|o| o.k)
                                },
                                i,
                                None
                            );
                            rep.count("lfo.set_phase.negative_twin", 1);
                            if let Some(k2) = k2 {
                                if k2 != cur.k {
                                    fail!("C11", "set_phase-negative-mod1", format!("set_phase({}) gives counter {} but set_phase({}) gives {}", p, cur.k, q, k2), i, None);
                                }
                            }
                        }
                    }
                }
            }
            Op::SetFreq(x) => {
                let before = cur.k;
                call!(lfo.set_frequency(*x), i, None);
                cur = obs!(i as u8, i, None);
                n_eval += 1;
                rep.count("lfo.set_frequency", 1);
                freq = *x as f64;
                inc_seen = None;
                if cur.k != before {
                    fail!("C11", "set_frequency-phase-jump", format!("set_frequency({:e}) moved the counter {} -> {}", x, before, cur.k), i, None);
                }
            }
            Op::Read(o) => {
                let a = obs!(*o, i, None);
                let b = obs!(o.wrapping_mul(3).wrapping_add(1), i, None);
                n_eval += 1;
                rep.count("lfo.read_pairs", 1);
                if a.k != cur.k || b.k != cur.k || a.sine.to_bits() != b.sine.to_bits() || a.tri.to_bits() != b.tri.to_bits() || a.sine.to_bits() != cur.sine.to_bits() {
                    fail!("C10", "read-disturbs", format!("reading the shapes in another order changed a value: k {} / {} / {}, sine {} / {} / {}", cur.k, a.k, b.k, cur.sine, a.sine, b.sine), i, None);
                }
            }
            Op::Tick(n) => {
                let ideal = TWO24 * freq / fs as f64;
                let lo = ideal * (1.0 - 1.0 / 8_388_608.0) - 1.0;
                let hi = ideal * (1.0 + 1.0 / 8_388_608.0);
                for t in 1..=*n {
                    let prev = cur;
                    let prev_tick = last_tick.unwrap_or(cur);
                    call!(lfo.tick(), i, Some(t));
                    if want == "C12" {
                        // if the counter cannot be read back after this tick (an up-saw outside its range: a C10 matter)
                        // the history ends here, but the step bound in terms of the commanded phase step still applies
                        let up = call!(lfo.get(Waveshape::UpSaw), i, Some(t));
                        let kf = (up as f64 + 1.0) * 8_388_608.0;
                        if !(kf >= 0.0 && kf < TWO24 && kf.fract() == 0.0) {
                            let (s, tr) = call!((lfo.get(Waveshape::Sine), lfo.get(Waveshape::Triangle)), i, Some(t));
                            let m = (ideal % TWO24 + TWO24) % TWO24;
                            let dphi_cmd = (m.min(TWO24 - m) + ideal / 8_388_608.0 + 2.0) / TWO24;
                            let ds = (s as f64 - prev_tick.sine as f64).abs();
                            let dt = (tr as f64 - prev_tick.tri as f64).abs();
                            if !(dt <= 4.0 * dphi_cmd + 1e-12) || !(ds <= 2.0 * std::f64::consts::PI * 1.002 * dphi_cmd + 2.0 / 8_388_608.0) {
                                fail!("C12", "step-with-unreadable-phase", format!("sine moved {:e} and triangle {:e} in one tick while the frequency in force commands a phase step of {:e} (UpSaw={} is not a phase, so the step actually taken cannot be read back)", ds, dt, dphi_cmd, fmt_f32(up)), i, Some(t));
                            }
                        }
                    }
                    cur = obs!(t as u8, i, Some(t));
                    last_tick = Some(cur);
                    n_eval += 1;
                    n_ticks += 1;
                    let dk = cur.k.wrapping_sub(prev.k) & M24;
                    // --- C11: advance by f/fs of a cycle (mod 1); stated for f in [0, fs] ---
                    let c11_applies = freq <= fs as f64;
                    match inc_seen {
                        _ if !c11_applies => {}
                        Some(d) if d == dk => {}
                        Some(d) => {
                            fail!("C11", "tick-not-constant", format!("counter step changed {} -> {} without a frequency change (f={:e})", d, dk, freq), i, Some(t));
                        }
                        None => {
                            // exists integer inc in [lo,hi] with inc = dk (mod 2^24)
                            let m_lo = ((lo - dk as f64) / TWO24).ceil().max(0.0);
                            let cand = dk as f64 + m_lo * TWO24;
                            if !(cand >= lo && cand <= hi) {
                                fail!("C11", "tick-advance", format!("tick advanced the counter by {} (mod 2^24) but f/fs*2^24 = {:.4} (allowed [{:.4},{:.4}] mod 2^24), f={:e}", dk, ideal, lo, hi, freq), i, Some(t));
                            } else {
                                let over = (cand - ideal) / ideal.max(1e-300);
                                if ideal > 0.0 {
                                    if over > max_over {
                                        max_over = over;
                                    }
                                    if ideal - cand > max_short {
                                        max_short = ideal - cand;
                                    }
                                }
                            }
                            inc_seen = Some(dk);
                        }
                    }
                    if cur.k < prev.k && dk != 0 && dk < (1 << 23) {
                        n_wraps += 1;
                    }
                    // --- C12: continuity ---
                    // the phase step of this tick: what was observed, but never more than what the frequency in force
                    // commands (a counter that jumps on its own - e.g. on set_frequency - is a discontinuity, not a step)
                    let dphi_obs = circ(cur.k, prev_tick.k) as f64 / TWO24;
                    let dphi_cmd = {
                        let m = (ideal % TWO24 + TWO24) % TWO24;
                        // (the f32 rounding of the increment is relative to the unreduced value: it matters for f >> fs)
                        (m.min(TWO24 - m) + ideal / 8_388_608.0 + 2.0) / TWO24
                    };
                    let dphi = dphi_obs.min(dphi_cmd);
                    let ds = (cur.sine as f64 - prev_tick.sine as f64).abs();
                    let dt = (cur.tri as f64 - prev_tick.tri as f64).abs();
                    let bound_s = 2.0 * std::f64::consts::PI * 1.002 * dphi + 2.0 / 8_388_608.0;
                    if !(ds <= bound_s) {
                        fail!("C12", "sine-step", format!("sine moved {:e} in one tick (k {} -> {}, phase step {:e}); bound {:e}", ds, prev.k, cur.k, dphi, bound_s), i, Some(t));
                    }
                    if !(dt <= 4.0 * dphi + 1e-12) {
                        fail!("C12", "triangle-step", format!("triangle moved {:e} in one tick (k {} -> {}, phase step {:e}); bound {:e}", dt, prev.k, cur.k, dphi, 4.0 * dphi), i, Some(t));
                    }
                    if dphi > 0.0 {
                        let sl = (ds - 2.0 / 8_388_608.0).max(0.0) / (2.0 * std::f64::consts::PI * dphi);
                        if sl > max_sine_slope {
                            max_sine_slope = sl;
                        }
                        let tl = dt / (4.0 * dphi);
                        if tl > max_tri_slope {
                            max_tri_slope = tl;
                        }
                    }
                    let e = (cur.sine as f64 - (2.0 * std::f64::consts::PI * cur.k as f64 / TWO24).sin()).abs();
                    if e > max_sine_err {
                        max_sine_err = e;
                    }
                    let cell = cur.k >> 14;
                    if cell != last_cell {
                        last_cell = cell;
                        rep.class(("cell", cell, dk.min(1 << 14).leading_zeros()));
                    }
                }
            }
        }
    }
        }
    rep.evaluations += n_eval;
    rep.count("lfo.ticks", n_ticks);
    rep.count("lfo.cycle_wraps_crossed", n_wraps);
    rep.count("lfo.histories", 1);
    rep.max("lfo.max_sine_error", max_sine_err);
    rep.max("lfo.max_sine_step_over_2pi_dphi", max_sine_slope);
    rep.max("lfo.max_triangle_step_over_4_dphi", max_tri_slope);
    if max_over > -1.0 {
        rep.max("lfo.max_relative_over_advance", max_over);
        rep.max("lfo.max_counter_steps_short", max_short);
    }
    None
}

// ------------------------------------------------------------------------------------------------
// workloads

pub const FS_LIST: [f32; 28] = [
    100.0, 125.0, 128.0, 200.0, 256.0, 441.0, 512.0, 999.0, 1000.0, 1001.0, 1024.0, 2000.0, 4000.0, 8000.0, 11025.0, 16000.0, 22050.0, 24000.0, 32000.0, 44100.0, 48000.0, 64000.0, 88200.0, 96000.0,
    128000.0, 176400.0, 191999.0, 192000.0,
];

pub fn pick_fs(r: &mut Rng) -> f32 {
    if r.chance(0.5) {
        *r.pick(&FS_LIST)
    } else {
        r.log_uniform(100.0, 192000.0) as f32
    }
}

fn pick_freq(r: &mut Rng, fs: f32, above_fs: bool) -> f32 {
    let step = fs as f64 / TWO24;
    if above_fs && r.chance(0.12) {
        // C10 / C12 are stated for every phase any history can reach: also histories with f > fs (the counter still
        // wraps; C11 and C17 are only stated up to fs and are not judged there)
        return (fs as f64 * *r.pick(&[1.001, 1.5, 1.7, 2.0, 3.0, 7.3, 64.0, 100.0])) as f32;
    }
    let f = match r.below(12) {
        0 => 0.0,
        1 => f32::from_bits(1 + r.below(1000) as u32) as f64, // subnormal
        2 => step * 0.5,
        3 => step,
        4 => step * 1.5,
        5 => step * r.uniform(1.0, 40.0),
        6 => fs as f64,
        7 => fs as f64 * r.uniform(0.5, 1.0),
        8 => fs as f64 / 2.0,
        9 => fs as f64 / (1u64 << r.below(20)) as f64,
        _ => r.log_uniform(1e-4, fs as f64),
    };
    (f as f32).min(fs).max(0.0)
}

fn pick_phase(r: &mut Rng) -> f32 {
    match r.below(10) {
        0 => 0.0,
        1 => r.below(1024) as f32 / 1024.0,
        2 => -(r.below(1 << 20) as f32) / 1024.0, // dyadic negative, |p| < 1024
        3 => r.uniform(-3.0, 3.0) as f32,
        4 => r.finite_f32(),
        5 => (r.below(1 << 23) as f32 / 1024.0) * if r.chance(0.5) { 1.0 } else { -1.0 },
        6 => 1.0 - f32::EPSILON / 2.0,
        7 => *r.pick(&[1.0f32, 2.0, 0.5, 0.25, 0.75, 0.999_999_9, 16_777_216.0, 3.4e38, -3.4e38, -0.0, 1e-45, -1e-45]),
        _ => r.unit() as f32,
    }
}

pub fn random_history(r: &mut Rng, max_ticks: u64, above_fs: bool) -> History {
    let fs = pick_fs(r);
    let mut ops = vec![Op::SetFreq(pick_freq(r, fs, above_fs))];
    let mut last_f = if let Op::SetFreq(x) = ops[0] { x } else { 0.0 };
    let n_ops = 4 + r.below(40);
    let mut budget = max_ticks;
    for _ in 0..n_ops {
        let op = match r.below(10) {
            0 => Op::Reset,
            1 | 2 => Op::SetPhase(pick_phase(r)),
            3 | 4 => {
                let fq = if r.chance(0.15) {
                    // a nudge of a few ulps / of about 1e-7 Hz: a change however small must take effect
                    let nudged = match r.below(3) {
                        0 => f32::from_bits((last_f.to_bits() as i64 + r.range(-8, 8)).max(0) as u32),
                        1 => last_f + (r.uniform(-1.2e-7, 1.2e-7) as f32),
                        _ => last_f * (1.0 + r.uniform(-3e-7, 3e-7) as f32),
                    };
                    if nudged.is_finite() { nudged.max(0.0).min(fs) } else { last_f }
                } else if r.chance(0.3) {
                    // the frequency that the current counter step realises exactly (k*fs/2^24 for k = step-1, step, step+1),
                    // i.e. what a "get_frequency" would report: asking for it again must follow the documented rule
                    let k = (TWO24 * last_f as f64 / fs as f64).floor() + r.range(-1, 1) as f64;
                    ((k.max(0.0) * fs as f64 / TWO24) as f32).min(fs)
                } else {
                    pick_freq(r, fs, above_fs)
                };
                last_f = fq;
                Op::SetFreq(fq)
            }
            5 => Op::Read(r.below(256) as u8),
            _ => {
                let n = (1 + r.below(1 + budget / 4)).min(budget);
                budget -= n;
                Op::Tick(n)
            }
        };
        ops.push(op);
        if budget == 0 {
            break;
        }
    }
    History { fs, ops }
}

fn run_and_record(h: &History, want: &str, rep: &mut Report, sample: bool) {
    if sample {
        let txt: Vec<String> = h.ops.iter().take(12).map(|o| format!("{:?}", o)).collect();
        rep.sample(format!("lfo fs={} ops=[{}{}]", h.fs, txt.join(", "), if h.ops.len() > 12 { ", ..." } else { "" }));
    }
    if let Some(v) = execute(h, want, rep) {
        rep.violate(shrink(h, want, v));
    }
}

pub fn shrink(h: &History, want: &str, v: Violation) -> Violation {
    let base = match Text::parse(&v.replay).ok().and_then(|t| History::parse(&t).ok()) {
        Some(c) => c,
        None => return v,
    };
    let total: u64 = base.ops.iter().map(|o| if let Op::Tick(n) = o { *n } else { 1 }).sum();
    if base.ops.len() > 2000 || total > 200_000 {
        return v;
    }
    let sig = v.signature.clone();
    let fails = |ops: &[Op]| {
        let hh = History { fs: h.fs, ops: ops.to_vec() };
        let mut scratch = Report::new();
        matches!(execute(&hh, want, &mut scratch), Some(x) if x.signature == sig)
    };
    let ops = crate::report::shrink_ops(&base.ops, 400, fails);
    let hh = History { fs: h.fs, ops };
    let mut scratch = Report::new();
    match execute(&hh, want, &mut scratch) {
        Some(x) if x.signature == sig => x,
        _ => v,
    }
}

/// the counter value an oscillator reports after set_phase(p) (real code, scratch instance)
fn start_of(fs: f32, p: f32) -> u32 {
    let mut l = Lfo::new(fs);
    l.set_phase(p);
    (((l.get(Waveshape::UpSaw) as f64) + 1.0) * 8_388_608.0) as u32
}

/// Stage A: every one of the 2^24 counter values with the smallest increment, including the wrap.
/// 16 shards start at set_phase(j/16) and tick until they have passed the next shard's start.
pub fn sweep_all(ctx: &Ctx, want: &str) -> Report {
    let fs = 48000.0f32;
    let f1 = (1.5 * fs as f64 / TWO24) as f32; // increment 1
    let shards = 16;
    let starts: Vec<u32> = (0..shards).map(|j| start_of(fs, j as f32 / shards as f32)).collect();
    let mut rep = par_shards(ctx, shards, |j| {
        let mut rep = Report::new();
        let next = starts[(j + 1) % shards];
        let full = (next.wrapping_sub(starts[j]) & M24) as u64 + 8;
        // under Miri only the neighbourhood of the shard boundary (the last shard crosses the wrap)
        let (p0, n) = if ctx.tier == Tier::Small { ((j as f32 + 1.0) / shards as f32 - 1.0 / 131072.0, if j % 4 == 3 { 120 } else { 0 }) } else { (j as f32 / shards as f32, full) };
        let h = History { fs, ops: vec![Op::SetFreq(f1), Op::SetPhase(p0), Op::Read(j as u8), Op::Tick(n)] };
        run_and_record(&h, want, &mut rep, j == 15);
        rep.count("lfo.sweep.ticks", n);
        rep
    });
    if ctx.tier != Tier::Small && rep.violations.is_empty() {
        rep.exhaustive = Some("all 2^24 phase-counter values visited with increment 1 (16 shards from set_phase(j/16), each ticking 8 steps past the next shard's start, the last one across the cycle wrap); 5 waveshapes read at each".into());
    }
    rep
}

/// Stage B: larger fixed increments over whole cycles (every adjacent pair at that increment incl. wraps)
pub fn sweep_increments(ctx: &Ctx, want: &str) -> Report {
    let incs: &[u32] = if ctx.tier == Tier::Small { &[100_003, 5_000_011] } else { &[2, 3, 17, 1000, 16_385, 100_003, 8_388_607, 8_388_609, 16_777_215] };
    par_shards(ctx, incs.len(), |j| {
        let mut rep = Report::new();
        let fs = 1024.0f32;
        let inc = incs[j];
        let fq = ((inc as f64 + 0.5) * fs as f64 / TWO24) as f32;
        let cycles = if ctx.tier == Tier::Small { 1 } else { 3 };
        let n = ((TWO24 / inc as f64).ceil() as u64 + 2) * cycles;
        let n = n.min(ctx.budget(400, 1 << 23, 1 << 25));
        let h = History { fs, ops: vec![Op::SetFreq(fq), Op::SetPhase(0.3), Op::Tick(n)] };
        run_and_record(&h, want, &mut rep, j == 0);
        rep
    })
}

/// Stage C: directed set_phase / reset / set_frequency scenarios
pub fn directed(ctx: &Ctx, want: &str) -> Report {
    let mut rep = Report::new();
    let fss: &[f32] = if ctx.tier == Tier::Small { &[100.0, 48000.0] } else { &FS_LIST };
    for &fs in fss {
        let step = fs as f64 / TWO24;
        let mut ops = vec![];
        // frequencies around the increment quantum, each held for a while, without phase jumps
        let hold = if ctx.tier == Tier::Small { 6 } else { 50 };
        for m in [0.0, 0.25, 0.99, 1.0, 1.01, 1.5, 2.0, 2.5, 1000.3] {
            ops.push(Op::SetFreq((step * m) as f32));
            ops.push(Op::Tick(hold));
        }
        for d in [1.0, 2.0, 3.0, 4.0, 7.0, 1.0e3] {
            ops.push(Op::SetFreq((fs as f64 / d) as f32));
            ops.push(Op::Tick(hold));
            ops.push(Op::Read(d as u8));
        }
        ops.push(Op::SetFreq(fs));
        ops.push(Op::Tick(20));
        if want != "C17" && want != "C11" {
            for m in [1.001f64, 1.7, 2.0, 31.0] {
                ops.push(Op::SetFreq((fs as f64 * m) as f32));
                ops.push(Op::Tick(if ctx.tier == Tier::Small { 8 } else { 1200 }));
            }
            ops.push(Op::SetFreq(fs / 3.0));
        }
        // phases: dyadic grid, both signs, beyond one cycle
        let grid = if ctx.tier == Tier::Small { 6 } else { 64 };
        for i in 0..grid {
            let p = i as f32 / grid as f32;
            ops.push(Op::SetPhase(p));
            ops.push(Op::SetPhase(p + 5.0));
            ops.push(Op::SetPhase(-p));
            ops.push(Op::SetPhase(-p - 3.0));
            ops.push(Op::Tick(2));
        }
        for p in [0.999_999_94f32, 0.999_999, 1.0, 1.000_000_1, 1e9, 16_777_216.0, 3.4e38, -3.4e38, 1e-45, -1e-45, -0.0] {
            ops.push(Op::SetPhase(p));
            ops.push(Op::Tick(3));
        }
        ops.push(Op::Reset);
        ops.push(Op::Tick(5));
        let h = History { fs, ops };
        run_and_record(&h, want, &mut rep, fs == 100.0);
    }
    // long constant-frequency runs: the step never drifts
    let long = ctx.budget(150, 1_000_000, 20_000_000);
    for &(fs, fq) in &[(100.0f32, 0.013f32), (44100.0, 0.1), (192000.0, 7.3), (999.0, 998.9)] {
        let h = History { fs, ops: vec![Op::SetFreq(fq), Op::Tick(long)] };
        run_and_record(&h, want, &mut rep, false);
        rep.count("lfo.long_runs", 1);
    }
    rep
}

/// closed-loop landings: after reset / set_phase / some ticks the next tick is steered exactly onto chosen counter
/// values (0, the cycle end, the half cycle, table-cell boundaries and their neighbours), then the run continues slowly
pub fn landings(ctx: &Ctx, want: &str) -> Report {
    let fss: &[f32] = if ctx.tier == Tier::Small { &[1024.0] } else { &[128.0, 1024.0, 4096.0, 65536.0, 131072.0] };
    let n = ctx.budget(2, 400, 20_000) as usize;
    par_shards(ctx, fss.len(), |j| {
        let mut rep = Report::new();
        let fs = fss[j];
        let mut r = Rng::derive(ctx.seed, "lfo.landings", j as u64);
        for h_i in 0..n {
            let mut ops = vec![Op::SetFreq(fs / 1024.0)];
            for _ in 0..(3 + r.below(6)) {
                match r.below(5) {
                    0 => ops.push(Op::Reset),
                    1 | 2 => ops.push(Op::SetPhase(pick_phase(&mut r))),
                    _ => ops.push(Op::Tick(1 + r.below(4))),
                }
                let cell = (r.below(1024) as u32) << 14;
                let target = match r.below(9) {
                    0 | 1 => 0,
                    2 => M24,
                    3 => 1 << 23,
                    4 => (1 << 23) - 1,
                    5 => cell,
                    6 => cell.wrapping_sub(1) & M24,
                    7 => (1023u32 << 14) + r.below(1 << 14) as u32,
                    _ => r.below(1 << 24) as u32,
                };
                ops.push(Op::LandOn(target));
                if r.chance(0.5) {
                    ops.push(Op::Read(r.below(256) as u8));
                }
                // go on slowly (a fraction of a table cell per tick), then at a coarse step
                ops.push(Op::SetFreq(fs * (1 + r.below(2000)) as f32 / 16_777_216.0));
                ops.push(Op::Tick(2 + r.below(6)));
                if r.chance(0.3) {
                    ops.push(Op::SetFreq(fs / (1u32 << r.below(12)) as f32));
                    ops.push(Op::Tick(1 + r.below(3)));
                }
            }
            let h = History { fs, ops };
            run_and_record(&h, want, &mut rep, j == 0 && h_i == 0);
        }
        rep
    })
}

/// Stage D: seeded random histories
pub fn random(ctx: &Ctx, want: &str) -> Report {
    let n_hist = ctx.budget(12, 60_000, 6_000_000);
    let shards = if ctx.tier == Tier::Small { 1 } else { 64usize };
    par_shards(ctx, shards, |s| {
        let mut rep = Report::new();
        let mut r = Rng::derive(ctx.seed, "lfo.random", s as u64);
        let per = (n_hist as usize + shards - 1) / shards;
        for j in 0..per {
            let max_ticks = if ctx.tier == Tier::Small { 40 } else { 2_000 };
            let h = random_history(&mut r, max_ticks, want != "C17" && want != "C11");
            run_and_record(&h, want, &mut rep, s == 0 && j < 2);
        }
        rep
    })
}

pub fn run(ctx: &Ctx, prop: &str) -> Report {
    let mut rep = Report::new();
    let stage = |name: &str, r: Report, rep: &mut Report, t0: std::time::Instant| {
        let ev = r.evaluations;
        rep.merge(r);
        rep.stages.push((name.to_string(), t0.elapsed().as_secs_f64(), ev));
    };
    let t = std::time::Instant::now();
    stage("lfo.sweep_all_phases", sweep_all(ctx, prop), &mut rep, t);
    let t = std::time::Instant::now();
    stage("lfo.sweep_increments", sweep_increments(ctx, prop), &mut rep, t);
    let t = std::time::Instant::now();
    stage("lfo.directed", directed(ctx, prop), &mut rep, t);
    let t = std::time::Instant::now();
    stage("lfo.closed_loop_landings", landings(ctx, prop), &mut rep, t);
    let t = std::time::Instant::now();
    stage("lfo.random", random(ctx, prop), &mut rep, t);
    if ctx.tier != Tier::Small {
        rep.floor("lfo.sweep.ticks", 1 << 24);
        rep.floor("lfo.cycle_wraps_crossed", 10);
        rep.floor("lfo.set_phase.negative_twin", 100);
        rep.floor("lfo.set_phase.nonneg", 1000);
        rep.floor("lfo.read_pairs", 100);
        rep.floor("lfo.land_on", 1000);
    }
    rep
}

pub fn replay(t: &Text, want: &str, rep: &mut Report) -> Result<Option<Violation>, String> {
    let h = History::parse(t)?;
    Ok(execute(&h, want, rep))
}
