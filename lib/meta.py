"""Per-property metadata used by ./check for the evidence files, and the extra engines per tier."""

COMMON = [
    "the harness binary is built from /repo's working tree by cargo (path dependency, feature verif-hooks) in profile `verif` = release + overflow-checks + debug-assertions",
    "f32 arithmetic follows IEEE-754 on x86-64 SSE (no fast-math); results are deterministic, so a replay file reproduces a history exactly",
    "only executions actually driven are decided: 'held' means held on the monitored executions listed under coverage",
]

LFO_RULE = ("exhaustive sweep of all 2^24 phase-counter values (increment 1, across the wrap), whole-cycle sweeps at 9 larger increments, "
            "directed set_phase/reset/set_frequency scenarios at 16 sample rates and seeded random histories; every tick reads all 5 waveshapes. "
            "distinct_nontrivial = distinct (sine-table cell, increment magnitude class) pairs observed")

META = {
    "C10": {"rule": LFO_RULE, "assumptions": COMMON + ["the phase counter is read back through UpSaw: k=(UpSaw+1)*2^23 must be an integer; C11 ties k to the commanded phase"]},
    "C11": {"rule": LFO_RULE, "assumptions": COMMON + ["a frequency must have been set before the first tick (power-on increment is 0)", "negative-phase invariance is checked on dyadic p with |p|<8192 where p and p-m are both exact f32"]},
    "C12": {"rule": LFO_RULE, "assumptions": COMMON + ["ulp in the sine bound is taken at magnitude 1 (2^-23)"]},
}

ENGINES = {}

HOOK_COMMITS = ["6c4927e"]
NOT_APPLICABLE = {}

def _t(engine, technique, level_text, level_note, design_ref):
    return {"engine": engine, "technique": technique, "level_text": level_text, "level_note": level_note, "design_ref": design_ref}

E1 = "E1 native monitored harness"
NOTE = "trusted: rustc/cargo, the harness' reference models (written from the property text), IEEE f32 on x86-64; only driven executions are decided"

MANIFEST_TEXT = {
    "C10": _t(E1, "runtime monitor over an exhaustive run-time sweep of all 2^24 phases + random histories",
              "Every one of the 2^24 reachable phase-counter values is visited on the real Lfo and all five shapes are compared with an independent closed-form oracle (exact for saws/square/triangle, 0.0125 for the sine); random tick/set_frequency/set_phase/reset histories reach the same phases by other routes. Exhaustive for the per-phase clauses.",
              NOTE, "DESIGN.md 4 (C10)"),
    "C11": _t(E1, "runtime monitor: phase read-back after every call vs commanded phase / frequency",
              "After every reset/set_phase/set_frequency/tick the counter is read back exactly and compared with the commanded phase or the f/fs advance interval; constant step while the frequency is unchanged over runs of up to 2*10^7 ticks.",
              NOTE, "DESIGN.md 4 (C11)"),
    "C12": _t(E1, "runtime monitor on adjacent-tick differences over all 2^24 adjacent phase pairs incl. the wrap",
              "Every adjacent pair of counter values (increment 1, including 2^24-1 -> 0) and whole cycles at larger increments are observed on the real Lfo; |dSine| and |dTriangle| are compared with the property's slope bounds.",
              NOTE, "DESIGN.md 4 (C12)"),
}
