//! MIDI receiver: byte-level recording driver, an independent MIDI 1.0 framer (`RefDecoder`) feeding an
//! independent receiver specification (`RefReceiver`), and the monitors of
//!   C04  gate / note number / velocity track the held keys
//!   C05  edge latches
//!   C06  framing: after every byte all plain getters equal the reference
//!   C18  controllers and pitch bend routing / scaling

use crate::replay::{pu, Text};
use crate::report::{guard, par_shards, Ctx, Report, Tier, Violation};
use crate::rng::Rng;
use std::sync::OnceLock;
use synth_utils::mono_midi_receiver::{MonoMidiReceiver, NotePriority, RetriggerMode};

#[derive(Clone, Debug, PartialEq)]
pub enum Op {
    Byte(u8),
    PollRising,
    PollFalling,
    /// 0 = Last, 1 = High, 2 = Low
    Priority(u8),
    Retrigger(bool),
    /// the byte pattern fed n times in a row (run-length form). The first two repetitions go through the normal
    /// byte-by-byte comparison; if the reference state is the same after both, the remaining n-2 repetitions are
    /// fed to the real receiver only and all getters are compared once at the end
    Repeat(Vec<u8>, u64),
}

#[derive(Clone, Debug)]
pub struct History {
    /// constructor argument (values above 15 act as 15)
    pub channel_arg: u8,
    pub ops: Vec<Op>,
}

impl History {
    pub fn to_text(&self, property: &str, upto_op: usize) -> String {
        let mut t = Text::new();
        t.set("property", property).set("module", "midi").set("channel_arg", self.channel_arg.to_string());
        // bytes are written in runs to keep the files readable
        let mut run: Vec<String> = Vec::new();
        let flush = |run: &mut Vec<String>, t: &mut Text| {
            if !run.is_empty() {
                t.ops.push(format!("bytes {}", run.join(" ")));
                run.clear();
            }
        };
        for (i, op) in self.ops.iter().enumerate() {
            if i > upto_op {
                break;
            }
            match op {
                Op::Byte(b) => {
                    run.push(format!("{:02x}", b));
                    if run.len() >= 24 {
                        flush(&mut run, &mut t);
                    }
                }
                other => {
                    flush(&mut run, &mut t);
                    t.ops.push(match other {
                        Op::PollRising => "poll_rising".into(),
                        Op::PollFalling => "poll_falling".into(),
                        Op::Priority(p) => format!("priority {}", p),
                        Op::Retrigger(b) => format!("retrigger {}", *b as u8),
                        Op::Repeat(p, n) => format!("repeat {} {}", n, p.iter().map(|b| format!("{:02x}", b)).collect::<Vec<_>>().join(" ")),
                        Op::Byte(_) => unreachable!(),
                    });
                }
            }
        }
        flush(&mut run, &mut t);
        t.to_text()
    }
    pub fn parse(t: &Text) -> Result<Self, String> {
        let channel_arg = pu(t.get("channel_arg")?)? as u8;
        let mut ops = Vec::new();
        for l in &t.ops {
            let mut it = l.split_whitespace();
            match it.next().unwrap_or("") {
                "bytes" => {
                    for b in it {
                        ops.push(Op::Byte(u8::from_str_radix(b, 16).map_err(|e| format!("bad byte {}: {}", b, e))?));
                    }
                }
                "poll_rising" => ops.push(Op::PollRising),
                "poll_falling" => ops.push(Op::PollFalling),
                "priority" => ops.push(Op::Priority(pu(it.next().ok_or("arg")?)? as u8)),
                "retrigger" => ops.push(Op::Retrigger(pu(it.next().ok_or("arg")?)? != 0)),
                "repeat" => {
                    let n = pu(it.next().ok_or("arg")?)?;
                    let mut p = Vec::new();
                    for b in it {
                        p.push(u8::from_str_radix(b, 16).map_err(|e| format!("bad byte {}: {}", b, e))?);
                    }
                    ops.push(Op::Repeat(p, n));
                }
                x => return Err(format!("unknown midi op '{}'", x)),
            }
        }
        Ok(History { channel_arg, ops })
    }
    pub fn brief(&self) -> String {
        let mut s = format!("midi channel_arg={} ops=[", self.channel_arg);
        for op in self.ops.iter().take(40) {
            match op {
                Op::Byte(b) => s.push_str(&format!("{:02x} ", b)),
                Op::PollRising => s.push_str("R? "),
                Op::PollFalling => s.push_str("F? "),
                Op::Priority(p) => s.push_str(&format!("prio{} ", p)),
                Op::Retrigger(b) => s.push_str(&format!("retrig{} ", *b as u8)),
                Op::Repeat(p, n) => s.push_str(&format!("{:02x?}x{} ", p, n)),
            }
        }
        if self.ops.len() > 40 {
            s.push_str("...");
        }
        s.push(']');
        s
    }
}

// ------------------------------------------------------------------------------------------------
// reference: MIDI 1.0 framing

#[derive(Clone, Copy, Debug, PartialEq, Eq)]
pub struct Msg {
    pub status: u8,
    pub d1: u8,
    pub d2: u8,
}

#[derive(Clone, Debug, Default)]
pub struct RefDecoder {
    status: Option<u8>,
    have_d1: Option<u8>,
}

/// class of the decoder state before a byte, for the coverage classes of C06
impl RefDecoder {
    pub fn state_class(&self) -> u8 {
        match (self.status, self.have_d1) {
            (None, _) => 0,
            (Some(s), None) => 1 + ((s >> 4) - 8),      // 1..7: status seen, no data yet
            (Some(s), Some(_)) => 8 + ((s >> 4) - 8),   // 8..14: one data byte seen
        }
    }
    pub fn feed(&mut self, b: u8) -> Option<Msg> {
        if b >= 0xF8 {
            // system real-time: transparent, may appear anywhere
            return None;
        }
        if b >= 0xF0 {
            // system common / exclusive: cancels running status, payload data is ignored
            self.status = None;
            self.have_d1 = None;
            return None;
        }
        if b >= 0x80 {
            // channel voice status: sets running status, aborts a partial message
            self.status = Some(b);
            self.have_d1 = None;
            return None;
        }
        let st = self.status?;
        let two = !matches!(st & 0xF0, 0xC0 | 0xD0);
        if !two {
            return Some(Msg { status: st, d1: b, d2: 0 });
        }
        match self.have_d1.take() {
            None => {
                self.have_d1 = Some(b);
                None
            }
            Some(d1) => Some(Msg { status: st, d1, d2: b }),
        }
    }
}

// ------------------------------------------------------------------------------------------------
// reference: receiver specification

#[derive(Clone, Copy, Debug, PartialEq)]
pub struct Out {
    pub note: u8,
    pub vel: f32,
    pub pb: f32,
    pub mw: f32,
    pub vol: f32,
    pub cut: f32,
    pub res: f32,
    pub pt: f32,
    pub pe: bool,
    pub se: bool,
    pub gate: bool,
}

pub fn read_out(m: &MonoMidiReceiver) -> Out {
    Out {
        note: m.note_num(),
        vel: m.velocity(),
        pb: m.pitch_bend(),
        mw: m.mod_wheel(),
        vol: m.volume(),
        cut: m.vcf_cutoff(),
        res: m.vcf_resonance(),
        pt: m.portamento_time(),
        pe: m.portamento_enabled(),
        se: m.sustain_enabled(),
        gate: m.gate(),
    }
}

/// pitch-bend value of a fresh receiver for each 14-bit value (the scaling itself is judged by C18)
pub fn pb_table() -> &'static Vec<f32> {
    static T: OnceLock<Vec<f32>> = OnceLock::new();
    T.get_or_init(|| {
        let mut v = Vec::with_capacity(16384);
        let mut m = MonoMidiReceiver::new(0);
        for x in 0..16384u32 {
            m.parse(0xE0);
            m.parse((x & 0x7F) as u8);
            m.parse((x >> 7) as u8);
            v.push(m.pitch_bend());
        }
        v
    })
}

pub fn power_on() -> Out {
    read_out(&MonoMidiReceiver::new(0))
}

#[derive(Clone, Debug)]
pub struct RefReceiver {
    pub channel: u8,
    pub held: Vec<u8>,
    pub out: Out,
    pub rising: bool,
    pub falling: bool,
    pub priority: u8,
    pub retrigger: bool,
    pub defaults: Out,
    /// set when a 33rd outstanding note-on arrives: the properties are only stated up to 32
    pub overflowed: bool,
}

#[derive(Clone, Copy, Debug, PartialEq, Eq, Hash)]
pub enum Effect {
    None,
    NoteOnRaises,
    NoteOnLegato,
    NoteOffLast,
    NoteOffSome,
    NoteOffStrayGateLow,
    NoteOffStrayGateHigh,
    AllOffGateHigh,
    AllOffGateLow,
    Controller,
    ControllerIgnored,
    ResetControllers,
    PitchBend,
    Foreign,
    Unsupported,
}

impl RefReceiver {
    pub fn new(channel_arg: u8) -> Self {
        let d = power_on();
        RefReceiver { channel: channel_arg.min(15), held: Vec::new(), out: d, rising: false, falling: false, priority: 0, retrigger: false, defaults: d, overflowed: false }
    }
    fn select(&self) -> u8 {
        match self.priority {
            0 => *self.held.last().unwrap(),
            1 => *self.held.iter().max().unwrap(),
            _ => *self.held.iter().min().unwrap(),
        }
    }
    fn note_off(&mut self, note: u8) -> Effect {
        let before = self.held.len();
        self.held.retain(|n| *n != note);
        let removed = before != self.held.len();
        if self.held.is_empty() {
            if self.out.gate {
                self.out.gate = false;
                self.falling = true;
                self.rising = false;
                Effect::NoteOffLast
            } else {
                Effect::NoteOffStrayGateLow
            }
        } else {
            self.out.note = self.select();
            if removed {
                Effect::NoteOffSome
            } else {
                Effect::NoteOffStrayGateHigh
            }
        }
    }
    pub fn apply(&mut self, m: Msg) -> Effect {
        let kind = m.status & 0xF0;
        let ch = m.status & 0x0F;
        if ch != self.channel {
            return Effect::Foreign;
        }
        match kind {
            0x90 if m.d2 > 0 => {
                if self.held.len() >= 32 {
                    self.overflowed = true;
                    return Effect::None;
                }
                self.out.vel = m.d2 as f32 / 127.0;
                self.held.push(m.d1);
                self.out.note = self.select();
                let was_low = !self.out.gate;
                self.out.gate = true;
                self.falling = false;
                if was_low || self.retrigger {
                    self.rising = true;
                }
                if was_low {
                    Effect::NoteOnRaises
                } else {
                    Effect::NoteOnLegato
                }
            }
            0x90 | 0x80 => self.note_off(m.d1),
            0xE0 => {
                self.out.pb = pb_table()[((m.d2 as usize) << 7) | m.d1 as usize];
                Effect::PitchBend
            }
            0xB0 => {
                let v = m.d2 as f32 / 127.0;
                match m.d1 {
                    1 => self.out.mw = v,
                    7 => self.out.vol = v,
                    71 => self.out.cut = v,
                    74 => self.out.res = v,
                    5 => self.out.pt = v,
                    65 => self.out.pe = m.d2 >= 64,
                    64 => self.out.se = m.d2 >= 64,
                    121 => {
                        let d = self.defaults;
                        self.out.pb = d.pb;
                        self.out.mw = d.mw;
                        self.out.vol = d.vol;
                        self.out.cut = d.cut;
                        self.out.res = d.res;
                        self.out.pt = d.pt;
                        self.out.pe = d.pe;
                        self.out.se = d.se;
                        return Effect::ResetControllers;
                    }
                    123 => {
                        self.held.clear();
                        if self.out.gate {
                            self.out.gate = false;
                            self.falling = true;
                            self.rising = false;
                            return Effect::AllOffGateHigh;
                        }
                        return Effect::AllOffGateLow;
                    }
                    _ => return Effect::ControllerIgnored,
                }
                Effect::Controller
            }
            _ => Effect::Unsupported,
        }
    }
}

fn feq(a: f32, b: f32) -> bool {
    // value/127 may be computed with one rounding of difference; 0.0 and 1.0 must be exact
    if b == 0.0 || b == 1.0 || b == -1.0 {
        return a == b;
    }
    (a as f64 - b as f64).abs() <= 1.2e-7
}

/// first differing getter: (name, group, got, want); group: 'n' note traffic, 'c' controllers
fn diff(got: &Out, want: &Out) -> Option<(&'static str, char, String, String)> {
    if got.gate != want.gate {
        return Some(("gate", 'n', got.gate.to_string(), want.gate.to_string()));
    }
    if got.note != want.note {
        return Some(("note_num", 'n', got.note.to_string(), want.note.to_string()));
    }
    if !feq(got.vel, want.vel) {
        return Some(("velocity", 'n', got.vel.to_string(), want.vel.to_string()));
    }
    if got.pb.to_bits() != want.pb.to_bits() {
        return Some(("pitch_bend", 'c', got.pb.to_string(), want.pb.to_string()));
    }
    for (n, a, b) in [("mod_wheel", got.mw, want.mw), ("volume", got.vol, want.vol), ("vcf_cutoff", got.cut, want.cut), ("vcf_resonance", got.res, want.res), ("portamento_time", got.pt, want.pt)] {
        if !feq(a, b) {
            return Some((n, 'c', a.to_string(), b.to_string()));
        }
    }
    if got.pe != want.pe {
        return Some(("portamento_enabled", 'c', got.pe.to_string(), want.pe.to_string()));
    }
    if got.se != want.se {
        return Some(("sustain_enabled", 'c', got.se.to_string(), want.se.to_string()));
    }
    None
}

fn byte_class(b: u8, ch: u8) -> u8 {
    if b < 0x80 {
        0
    } else if b >= 0xF8 {
        1
    } else if b >= 0xF0 {
        2 + (b - 0xF0) // 2..9
    } else if b & 0x0F == ch {
        10 + ((b >> 4) - 8) // 10..16
    } else {
        17
    }
}

/// Execute one history on the real receiver, comparing with the reference after every byte.
pub fn execute(h: &History, want: &str, rep: &mut Report) -> Option<Violation> {
    if h.ops.iter().any(|o| matches!(o, Op::Repeat(_, _))) {
        return execute_with_repeats(h, want, rep);
    }
    execute_plain(h, want, rep).0
}

/// snapshot of everything the reference carries, to detect a fixed point of a repeated pattern
fn ref_fingerprint(x: &ExecState) -> String {
    format!("{:?}|{:?}|{}|{}|{:?}|{}|{}|{}", x.rf.held, x.rf.out, x.rf.rising, x.rf.falling, x.dec, x.rf.priority, x.rf.retrigger, x.observed)
}

pub struct ExecState {
    pub m: MonoMidiReceiver,
    pub dec: RefDecoder,
    pub rf: RefReceiver,
    pub observed: bool,
    pub gate_seen: bool,
}

/// histories with Repeat ops: the plain executor is run segment by segment on a carried state
fn execute_with_repeats(h: &History, want: &str, rep: &mut Report) -> Option<Violation> {
    let mut st: Option<ExecState> = None;
    let mut seg: Vec<Op> = Vec::new();
    let mut done_ops = 0usize;
    let run_seg = |seg: &mut Vec<Op>, st: &mut Option<ExecState>, rep: &mut Report, base: usize| -> Option<Violation> {
        if seg.is_empty() && st.is_some() {
            return None;
        }
        let hh = History { channel_arg: h.channel_arg, ops: std::mem::take(seg) };
        let (v, s2) = execute_from(&hh, want, rep, st.take());
        *st = s2;
        v.map(|mut v| {
            // the replay is the whole history up to this segment (Repeat ops kept in run-length form)
            let upto = (base + hh.ops.len()).min(h.ops.len()).saturating_sub(1);
            v.replay = h.to_text(if want == "ALL" { "C06" } else { want }, upto);
            v
        })
    };
    for op in h.ops.iter() {
        match op {
            Op::Repeat(pattern, n) => {
                if let Some(v) = run_seg(&mut seg, &mut st, rep, done_ops) {
                    return Some(v);
                }
                done_ops += 0;
                let once: Vec<Op> = pattern.iter().map(|b| Op::Byte(*b)).collect();
                let mut remaining = *n;
                let mut prints: Vec<String> = Vec::new();
                // the first two repetitions (and all of them when the count is small) under full comparison
                while remaining > 0 {
                    let mut s1 = once.clone();
                    if let Some(mut v) = run_seg(&mut s1, &mut st, rep, done_ops) {
                        v.replay = h.to_text(if want == "ALL" { "C06" } else { want }, h.ops.len());
                        return Some(v);
                    }
                    remaining -= 1;
                    let fp = st.as_ref().map(ref_fingerprint).unwrap_or_default();
                    prints.push(fp);
                    let k = prints.len();
                    if k >= 2 && prints[k - 1] == prints[k - 2] && remaining > 8 {
                        break;
                    }
                    if k > 64 && remaining > 100_000 {
                        rep.count("midi.repeat_without_fixed_point_skipped", 1);
                        remaining = 0;
                    }
                }
                if remaining > 0 {
                    // the reference is at a fixed point: the rest goes to the real receiver only
                    let stt = st.as_mut().unwrap();
                    let res = guard(|| {
                        for _ in 0..remaining {
                            for b in pattern.iter() {
                                stt.m.parse(*b);
                            }
                        }
                    });
                    rep.evaluations += remaining * pattern.len() as u64;
                    rep.count("midi.repeat_fast_forwarded_bytes", remaining * pattern.len() as u64);
                    if let Err(p) = res {
                        return Some(Violation { clause: "panic".into(), signature: format!("{}:panic:{}", want, p), message: format!("panicked while a pattern was repeated {} times: {}", n, p), replay: h.to_text(want, h.ops.len()) });
                    }
                    stt.gate_seen = stt.m.gate();
                    // one more repetition under full comparison shows any divergence that built up
                    let mut s1 = once.clone();
                    if let Some(mut v) = run_seg(&mut s1, &mut st, rep, done_ops) {
                        v.message = format!("after a pattern was repeated {} times: {}", n, v.message);
                        v.replay = h.to_text(if want == "ALL" { "C06" } else { want }, h.ops.len());
                        return Some(v);
                    }
                }
                done_ops += 1;
            }
            other => {
                seg.push(other.clone());
            }
        }
        if !matches!(op, Op::Repeat(_, _)) {
            // segments are flushed lazily; count ops for the replay cut
        }
    }
    let n_tail = seg.len();
    let v = run_seg(&mut seg, &mut st, rep, done_ops);
    let _ = n_tail;
    v.map(|mut v| {
        v.replay = h.to_text(if want == "ALL" { "C06" } else { want }, h.ops.len());
        v
    })
}

pub fn execute_plain(h: &History, want: &str, rep: &mut Report) -> (Option<Violation>, Option<ExecState>) {
    execute_from(h, want, rep, None)
}

/// Execute `h` starting from a carried state (or a fresh receiver); returns the state for continuation.
pub fn execute_from(h: &History, want: &str, rep: &mut Report, start: Option<ExecState>) -> (Option<Violation>, Option<ExecState>) {
    let mut carried: Option<ExecState> = None;
    let v = execute_inner(h, want, rep, start, &mut carried);
    (v, carried)
}

fn execute_inner(h: &History, want: &str, rep: &mut Report, start: Option<ExecState>, carry_out: &mut Option<ExecState>) -> Option<Violation> {
    let mk = |prop: &str, clause: &str, msg: String, i: usize| -> Violation {
        Violation { clause: clause.to_string(), signature: format!("{}:{}", prop, clause), message: format!("{} [channel_arg={} op#{}]", msg, h.channel_arg, i), replay: h.to_text(prop, i) }
    };
    let mut n_eval: u64 = 0;
    macro_rules! call {
        ($e:expr, $i:expr) => {
            match guard(|| $e) {
                Ok(v) => v,
                Err(p) => {
                    rep.evaluations += n_eval;
                    let mut v = mk(want, "panic", format!("panicked: {}", p), $i);
                    v.signature = format!("{}:panic:{}", want, p);
                    return Some(v);
                }
            }
        };
    }
    let (mut m, mut dec, mut rf, start_observed, start_gate) = match start {
        Some(s) => (s.m, s.dec, s.rf, s.observed, s.gate_seen),
        None => (call!(MonoMidiReceiver::new(h.channel_arg), 0), RefDecoder::default(), RefReceiver::new(h.channel_arg), false, false),
    };
    let mut effects = [0u64; 16];
    let mut polls = [[0u64; 2]; 2];
    let mut n_bytes = 0u64;
    let mut n_msgs = 0u64;
    let mut since_change_r = 0u8; // messages since the rising latch was last set (class only)
    // C18 judges the controller outputs only (note tracking is C04's subject): the note outputs of the reference are
    // re-synchronised with what is observed from the start
    let mut notes_undefined = want == "C18";
    let mut prev_out: Option<Out> = None;
    let mut observed_gate_mode = start_observed;
    // (C06 only) the priority was switched and no note message has been applied since
    let mut priority_switch_pending = false;
    let mut gate_seen = start_gate; // gate() as read after the previous byte
    for (i, op) in h.ops.iter().enumerate() {
        match op {
            Op::Byte(b) => {
                let cls = (dec.state_class(), byte_class(*b, rf.channel));
                if !observed_gate_mode && !notes_undefined && want == "C04" && rf.held.len() >= 32 {
                    // C04 / C06 / C18 are stated up to 32 outstanding note-ons: a byte that would complete the 33rd
                    // is not fed at all (whatever it does, panicking included, is C05's and C17's business)
                    if let Some(msg) = dec.clone().feed(*b) {
                        if msg.status == (0x90 | rf.channel) && msg.d2 > 0 {
                            rep.count("midi.history_cut_before_33rd_note_on", 1);
                            break;
                        }
                    }
                }
                call!(m.parse(*b), i);
                n_bytes += 1;
                n_eval += 1;
                let eff = match dec.feed(*b) {
                    Some(msg) => {
                        n_msgs += 1;
                        let held_before = rf.held.len();
                        let e = if observed_gate_mode { Effect::None } else { rf.apply(msg) };
                        if rf.overflowed && !observed_gate_mode {
                            // a 33rd outstanding note-on: outside the stated range of C04 (and of the list-based reference)
                            rep.count("midi.reference_list_left_at_33rd_note_on", 1);
                            if want == "C04" {
                                break;
                            }
                            if want == "C06" || want == "C18" || want == "ALL" {
                                // the controller outputs stay defined whatever the note buffer does: from here on only
                                // they (and the pitch bend) are compared
                                notes_undefined = true;
                                rf.overflowed = false;
                                rep.count("midi.controllers_only_after_33rd_note_on", 1);
                            }
                            // C05 is stated in terms of gate() itself and has no such limit: from here on the edge
                            // latches are judged against the gate transitions the implementation itself reports
                            if want == "C05" || want == "C17" {
                                observed_gate_mode = true;
                            }
                        }
                        if observed_gate_mode {
                            let gate_after = call!(m.gate(), i);
                            let own = msg.status & 0x0F == rf.channel;
                            if own && msg.status & 0xF0 == 0x90 && msg.d2 > 0 {
                                rf.falling = false;
                                if (!gate_seen && gate_after) || rf.retrigger {
                                    rf.rising = true;
                                }
                                rep.count("midi.c05.observed_gate_mode.note_on", 1);
                            }
                            if gate_seen && !gate_after {
                                rf.falling = true;
                                rf.rising = false;
                                rep.count("midi.c05.observed_gate_mode.gate_drop", 1);
                            }
                            rf.out.gate = gate_after;
                        }
                        rep.class(("msg", e, held_before.min(33) as u8 / 4, rf.priority, rf.retrigger, observed_gate_mode));
                        e
                    }
                    None => Effect::None,
                };
                effects[eff as usize] += 1;
                since_change_r = since_change_r.saturating_add(1);
                rep.class(("byte", cls.0, cls.1));
                let got = call!(read_out(&m), i);
                if want == "C18" {
                    // "no other controller number changes anything": a control change (other than All Notes Off) or a pitch
                    // bend on any channel must leave gate / note number / velocity where they were
                    if let (Some(prev), Effect::Controller | Effect::ControllerIgnored | Effect::ResetControllers | Effect::PitchBend) = (prev_out, eff) {
                        if prev.gate != got.gate || prev.note != got.note || prev.vel.to_bits() != got.vel.to_bits() {
                            rep.evaluations += n_eval;
                            return Some(mk("C18", "controller-moves-note-outputs", format!("after byte {:#04x} ({:?}) the note outputs moved: gate {} -> {}, note {} -> {}, velocity {} -> {}", b, eff, prev.gate, got.gate, prev.note, got.note, prev.vel, got.vel), i));
                        }
                    }
                    prev_out = Some(got);
                }
                gate_seen = got.gate;
                if observed_gate_mode {
                    continue;
                }
                if want == "C06" {
                    // C06 is about framing (which bytes form which message, which messages are applied), not about what a
                    // message means: what controller 121 restores is C18's clause, and the moment at which a priority
                    // switch re-selects the sounding note (at the switch, or at the next note message) is C04's
                    if eff == Effect::ResetControllers {
                        rf.out.pb = got.pb;
                        rf.out.mw = got.mw;
                        rf.out.vol = got.vol;
                        rf.out.cut = got.cut;
                        rf.out.res = got.res;
                        rf.out.pt = got.pt;
                        rf.out.pe = got.pe;
                        rf.out.se = got.se;
                        rep.count("midi.c06.controller_reset_values_taken_from_the_implementation", 1);
                    }
                    let note_msg = matches!(eff, Effect::NoteOnRaises | Effect::NoteOnLegato | Effect::NoteOffLast | Effect::NoteOffSome | Effect::NoteOffStrayGateLow | Effect::NoteOffStrayGateHigh | Effect::AllOffGateHigh | Effect::AllOffGateLow);
                    if note_msg && !rf.held.is_empty() {
                        // the note message re-selected the sounding note from the held keys: defined again
                        priority_switch_pending = false;
                    } else if priority_switch_pending {
                        // (also after a release of everything: "the last selected note" is the one selected at the switch
                        // or the one before it)
                        rf.out.note = got.note;
                    }
                }
                let d = diff(&got, &rf.out);
                let d = if notes_undefined {
                    // re-synchronise the note outputs of the reference with what is observed, compare controllers only
                    rf.out.gate = got.gate;
                    rf.out.note = got.note;
                    rf.out.vel = got.vel;
                    match d {
                        Some((_, 'n', _, _)) => diff(&got, &rf.out),
                        other => other,
                    }
                } else {
                    d
                };
                if let Some((name, group, g, w)) = d {
                    let (prop, ok) = match want {
                        "C04" => ("C04", group == 'n'),
                        "C18" => ("C18", group == 'c'),
                        "C06" | "C17" => ("C06", true),
                        "ALL" => (if group == 'n' { "C04" } else { "C18" }, true),
                        _ => ("", false),
                    };
                    if ok && (want == prop || want == "ALL") {
                        rep.evaluations += n_eval;
                        return Some(mk(prop, name, format!("after byte {:#04x} (effect {:?}): {}() = {} but the reference gives {} (held notes {:?}, priority {}, retrigger {})", b, eff, name, g, w, rf.held, rf.priority, rf.retrigger), i));
                    }
                    // a different property's getter: this history cannot be followed any further
                    rep.count("midi.history_abandoned_other_property", 1);
                    break;
                }
            }
            Op::PollRising | Op::PollFalling => {
                let rising = matches!(op, Op::PollRising);
                let got = if rising { call!(m.rising_gate(), i) } else { call!(m.falling_gate(), i) };
                n_eval += 1;
                let wantv = if rising { std::mem::replace(&mut rf.rising, false) } else { std::mem::replace(&mut rf.falling, false) };
                polls[rising as usize][wantv as usize] += 1;
                rep.class(("poll", rising, wantv, rf.out.gate, rf.retrigger, since_change_r.min(3)));
                if notes_undefined {
                    // latches follow the notes: not judged any more in this history
                    if rising { rf.rising = false } else { rf.falling = false }
                    continue;
                }
                if want == "C05" || want == "ALL" || want == "C06" {
                    let pprop = if want == "C06" { "C06" } else { "C05" };
                    let gate = call!(m.gate(), i);
                    if got != wantv {
                        rep.evaluations += n_eval;
                        let name = if rising { "rising_gate" } else { "falling_gate" };
                        return Some(mk(pprop, name, format!("{}() returned {} but the reference latch is {} (gate {}, held {:?}, retrigger {})", name, got, wantv, rf.out.gate, rf.held, rf.retrigger), i));
                    }
                    if got && rising && !gate {
                        rep.evaluations += n_eval;
                        return Some(mk(pprop, "rising-implies-gate", "rising_gate() true while gate() is false".into(), i));
                    }
                    if got && !rising && gate {
                        rep.evaluations += n_eval;
                        return Some(mk(pprop, "falling-implies-not-gate", "falling_gate() true while gate() is true".into(), i));
                    }
                } else if got != wantv {
                    rep.count("midi.history_abandoned_other_property", 1);
                    break;
                }
            }
            Op::Repeat(_, _) => {
                // handled by execute_with_repeats
            }
            Op::Priority(p) => {
                let pr = match p {
                    0 => NotePriority::Last,
                    1 => NotePriority::High,
                    _ => NotePriority::Low,
                };
                call!(m.set_note_priority(pr), i);
                rf.priority = (*p).min(2);
                n_eval += 1;
                priority_switch_pending = true;
            }
            Op::Retrigger(b) => {
                call!(m.set_retrigger_mode(if *b { RetriggerMode::AllowRetrigger } else { RetriggerMode::NoRetrigger }), i);
                rf.retrigger = *b;
                n_eval += 1;
            }
        }
    }
    rep.evaluations += n_eval;
    rep.count("midi.bytes", n_bytes);
    rep.count("midi.messages", n_msgs);
    rep.count("midi.histories", 1);
    const EN: [&str; 15] = ["None", "NoteOnRaises", "NoteOnLegato", "NoteOffLast", "NoteOffSome", "NoteOffStrayGateLow", "NoteOffStrayGateHigh", "AllOffGateHigh", "AllOffGateLow", "Controller", "ControllerIgnored", "ResetControllers", "PitchBend", "Foreign", "Unsupported"];
    for (k, n) in EN.iter().enumerate() {
        if effects[k] > 0 && k > 0 {
            rep.count(&format!("midi.effect.{}", n), effects[k]);
        }
    }
    rep.count("midi.poll.rising.true", polls[1][1]);
    rep.count("midi.poll.rising.false", polls[1][0]);
    rep.count("midi.poll.falling.true", polls[0][1]);
    rep.count("midi.poll.falling.false", polls[0][0]);
    *carry_out = Some(ExecState { m, dec, rf, observed: observed_gate_mode, gate_seen });
    None
}

// ------------------------------------------------------------------------------------------------
// workloads

pub fn run_and_record(h: &History, want: &str, rep: &mut Report, sample: bool) {
    if sample {
        rep.sample(h.brief());
    }
    if let Some(v) = execute(h, want, rep) {
        rep.violate(shrink(h, want, v));
    }
}

/// shrink a failing history while the same clause keeps firing; the replay text of the result is minimal-ish
pub fn shrink(h: &History, want: &str, v: Violation) -> Violation {
    if h.ops.len() > 20_000 || h.ops.iter().any(|o| matches!(o, Op::Repeat(_, n) if *n > 100_000)) {
        return v;
    }
    let sig = v.signature.clone();
    let fails = |ops: &[Op]| {
        let hh = History { channel_arg: h.channel_arg, ops: ops.to_vec() };
        let mut scratch = Report::new();
        matches!(execute(&hh, want, &mut scratch), Some(x) if x.signature == sig)
    };
    let ops = crate::report::shrink_ops(&h.ops, 3000, fails);
    let hh = History { channel_arg: h.channel_arg, ops };
    let mut scratch = Report::new();
    match execute(&hh, want, &mut scratch) {
        Some(x) if x.signature == sig => x,
        _ => v,
    }
}

struct Emit {
    ops: Vec<Op>,
    last_status: Option<u8>,
}

impl Emit {
    fn new() -> Self {
        Emit { ops: Vec::new(), last_status: None }
    }
    /// a channel message, with explicit status or (when legal and asked for) running status
    fn msg(&mut self, status: u8, d: &[u8], running: bool) {
        if !(running && self.last_status == Some(status)) {
            self.ops.push(Op::Byte(status));
        }
        self.last_status = Some(status);
        for b in d {
            self.ops.push(Op::Byte(*b & 0x7F));
        }
    }
    fn raw(&mut self, b: u8) {
        if (0x80..0xF8).contains(&b) {
            self.last_status = if b < 0xF0 { Some(b) } else { None };
        }
        self.ops.push(Op::Byte(b));
    }
}

/// message-level note traffic on the listened channel (C04, C05)
pub fn gen_notes(r: &mut Rng, n_msgs: usize, poll_rate: f64, strict_polls: bool) -> History {
    gen_notes_x(r, n_msgs, poll_rate, strict_polls, false)
}

/// `allow_overflow`: do not keep the stream within 32 outstanding note-ons (C05 has no such limit)
pub fn gen_notes_x(r: &mut Rng, n_msgs: usize, poll_rate: f64, strict_polls: bool, allow_overflow: bool) -> History {
    // (constructor arguments above 15 are C20's subject: channel twins and the clamp sweep)
    let channel_arg: u8 = r.below(16) as u8;
    let ch = channel_arg.min(15);
    let pool_size = *r.pick(&[1usize, 2, 3, 3, 12, 12, 128]);
    let base = r.below(128 - pool_size as u64 + 1) as u8;
    let mut e = Emit::new();
    let mut outstanding: Vec<u8> = Vec::new(); // generator-side count keeps the stream within 32 outstanding note-ons
    let p_running = r.unit();
    let p_on = if allow_overflow { 0.75 + 0.2 * r.unit() } else { 0.35 + 0.4 * r.unit() };
    for _ in 0..n_msgs {
        let note = base + r.below(pool_size as u64) as u8;
        let k = r.unit();
        if k < 0.04 {
            e.ops.push(Op::Priority(r.below(3) as u8));
        } else if k < 0.08 {
            e.ops.push(Op::Retrigger(r.chance(0.5)));
        } else if k < 0.11 {
            // All Notes Off (the value is 0 on the wire; other values are sent now and then)
            let v = if r.chance(0.8) { 0 } else { r.below(128) as u8 };
            e.msg(0xB0 | ch, &[123, v], r.chance(p_running));
            outstanding.clear();
        } else if k < 0.11 + p_on * 0.89 {
            if outstanding.len() < 32 || allow_overflow {
                let vel = 1 + r.below(127) as u8;
                e.msg(0x90 | ch, &[note, vel], r.chance(p_running));
                outstanding.push(note);
            }
        } else {
            // release: a held note (any position), the same note again, or a note that is not held
            let n = if !outstanding.is_empty() && r.chance(0.8) { *r.pick(&outstanding) } else { note };
            if r.chance(0.5) {
                e.msg(0x80 | ch, &[n, r.below(128) as u8], r.chance(p_running));
            } else {
                e.msg(0x90 | ch, &[n, 0], r.chance(p_running));
            }
            outstanding.retain(|x| *x != n);
        }
        // now and then traffic that must not matter
        if r.chance(0.05) {
            match r.below(4) {
                0 => e.raw(0xF8),
                1 => {
                    let other = (ch + 1 + r.below(15) as u8) % 16;
                    e.msg(0x90 | other, &[note, 100], false);
                }
                2 => e.msg(0xB0 | ch, &[*r.pick(&[1u8, 7, 64, 2, 100]), r.below(128) as u8], false),
                _ => e.msg(0xE0 | ch, &[r.below(128) as u8, r.below(128) as u8], false),
            }
        }
        if strict_polls {
            e.ops.push(Op::PollRising);
            e.ops.push(Op::PollFalling);
        } else {
            if r.chance(poll_rate) {
                e.ops.push(Op::PollRising);
            }
            if r.chance(poll_rate) {
                e.ops.push(Op::PollFalling);
            }
        }
    }
    History { channel_arg, ops: e.ops }
}

/// a key held down while a long melody is played over it (C04): the held key must survive any number of
/// later note-ons; (C05) with `burst` the melody runs without any edge poll, polls come only at the end
pub fn gen_drone_melody(r: &mut Rng, n_melody: usize, polls: bool) -> History {
    let channel_arg = r.below(16) as u8;
    let ch = channel_arg;
    let mut e = Emit::new();
    e.ops.push(Op::Priority(r.below(3) as u8));
    e.ops.push(Op::Retrigger(r.chance(0.5)));
    let n_drones = 1 + r.below(3) as u8;
    let drone_base = 20 + r.below(80) as u8;
    for d in 0..n_drones {
        e.msg(0x90 | ch, &[drone_base + d, 1 + r.below(127) as u8], false);
    }
    if polls {
        e.ops.push(Op::PollRising);
        e.ops.push(Op::PollFalling);
    }
    let legato = r.chance(0.5);
    let mut prev: Option<u8> = None;
    for k in 0..n_melody {
        let note = (drone_base as usize + 5 + (k * 7 + r.usize_below(5)) % 40) as u8 & 0x7F;
        let run = r.chance(0.5);
        if legato {
            e.msg(0x90 | ch, &[note, 1 + r.below(127) as u8], run);
            if let Some(p) = prev {
                if r.chance(0.5) {
                    e.msg(0x80 | ch, &[p, 0], run);
                } else {
                    e.msg(0x90 | ch, &[p, 0], run);
                }
            }
            prev = Some(note);
        } else {
            e.msg(0x90 | ch, &[note, 1 + r.below(127) as u8], run);
            e.msg(0x80 | ch, &[note, 64], run);
        }
        if k % 97 == 0 && r.chance(0.3) {
            e.ops.push(Op::Priority(r.below(3) as u8));
        }
    }
    if polls {
        e.ops.push(Op::PollRising);
        e.ops.push(Op::PollFalling);
        e.ops.push(Op::PollRising);
    }
    // release everything: the drones last
    if let Some(p) = prev {
        e.msg(0x80 | ch, &[p, 0], false);
    }
    for d in 0..n_drones {
        e.msg(0x80 | ch, &[drone_base + d, 0], false);
        if polls {
            e.ops.push(Op::PollFalling);
        }
    }
    if polls {
        e.ops.push(Op::PollRising);
        e.ops.push(Op::PollFalling);
    }
    History { channel_arg, ops: e.ops }
}

/// the held-note buffer filled to (and past) its 32 entries with distinct keys, then re-strikes of the newest /
/// oldest / a middle key, further keys and releases in several orders (C04 up to the 32nd, C05 and C17 beyond)
pub fn gen_full_buffer(r: &mut Rng, polls: bool) -> History {
    let channel_arg = r.below(16) as u8;
    let ch = channel_arg;
    let mut e = Emit::new();
    e.ops.push(Op::Priority(r.below(3) as u8));
    e.ops.push(Op::Retrigger(r.chance(0.5)));
    let n = *r.pick(&[30usize, 31, 32, 32, 32, 33, 34, 40]);
    let base = r.below(60) as u8;
    let same_key = r.chance(0.2);
    let mut keys: Vec<u8> = Vec::new();
    for k in 0..n {
        let key = if same_key { base } else { base + k as u8 };
        keys.push(key);
        e.msg(0x90 | ch, &[key, 1 + r.below(127) as u8], r.chance(0.5));
        if polls && r.chance(0.1) {
            e.ops.push(Op::PollRising);
        }
    }
    for _ in 0..(2 + r.below(6)) {
        let key = match r.below(5) {
            0 => *keys.last().unwrap(),
            1 => keys[0],
            2 => keys[keys.len() / 2],
            3 => base + 100,
            _ => *r.pick(&keys),
        };
        if r.chance(0.7) {
            e.msg(0x90 | ch, &[key, 1 + r.below(127) as u8], r.chance(0.5));
        } else {
            e.msg(0x80 | ch, &[key, 0], r.chance(0.5));
        }
        if polls {
            e.ops.push(Op::PollRising);
            e.ops.push(Op::PollFalling);
        }
    }
    // release in a random order
    let mut order = keys.clone();
    for i in (1..order.len()).rev() {
        order.swap(i, r.usize_below(i + 1));
    }
    for key in order {
        e.msg(0x80 | ch, &[key, 0], r.chance(0.5));
        if polls && r.chance(0.2) {
            e.ops.push(Op::PollFalling);
        }
    }
    if polls {
        e.ops.push(Op::PollRising);
        e.ops.push(Op::PollFalling);
    }
    History { channel_arg, ops: e.ops }
}

/// every controller and the pitch bend set to a mid value first, so that any hidden change shows in a getter
fn preset_controllers(e: &mut Emit, ch: u8, r: &mut Rng) {
    for cc in [1u8, 5, 7, 71, 74] {
        e.msg(0xB0 | ch, &[cc, 20 + r.below(100) as u8], r.chance(0.5));
    }
    e.msg(0xB0 | ch, &[64, if r.chance(0.5) { 0 } else { 127 }], false);
    e.msg(0xB0 | ch, &[65, if r.chance(0.5) { 0 } else { 127 }], false);
    e.msg(0xE0 | ch, &[r.below(128) as u8, r.below(128) as u8], false);
    e.msg(0x90 | ch, &[60, 100], false);
}

/// universal system exclusive messages (real-time 7F and non-real-time 7E) with arbitrary parameter bytes, device
/// ids {all-call, the listened channel, arbitrary}, with and without real-time bytes inside, terminated by F7 or by
/// the next status byte; and manufacturer SysEx with payloads that look like channel messages (C06)
pub fn gen_sysex(r: &mut Rng) -> History {
    let channel_arg = r.below(16) as u8;
    let ch = channel_arg;
    let mut e = Emit::new();
    preset_controllers(&mut e, ch, r);
    // (sub-id 1, sub-id 2, number of data bytes)
    const RT: [(u8, u8, usize); 12] = [(0x04, 0x01, 2), (0x04, 0x02, 2), (0x04, 0x03, 2), (0x04, 0x04, 2), (0x04, 0x05, 6), (0x01, 0x01, 4), (0x02, 0x00, 3), (0x03, 0x01, 0), (0x06, 0x01, 0), (0x08, 0x02, 5), (0x09, 0x01, 2), (0x0A, 0x01, 3)];
    const NRT: [(u8, u8, usize); 8] = [(0x09, 0x01, 0), (0x09, 0x02, 0), (0x09, 0x03, 0), (0x06, 0x01, 0), (0x06, 0x02, 10), (0x08, 0x00, 1), (0x7E, 0x00, 1), (0x7F, 0x00, 1)];
    for _ in 0..(2 + r.below(6)) {
        e.raw(0xF0);
        let style = r.below(10);
        if style < 7 {
            let rt = r.chance(0.7);
            e.raw(if rt { 0x7F } else { 0x7E });
            e.raw(match r.below(4) {
                0 | 1 => 0x7F,
                2 => ch,
                _ => r.below(128) as u8,
            });
            let (s1, s2, n) = if rt { *r.pick(&RT) } else { *r.pick(&NRT) };
            e.raw(s1);
            e.raw(s2);
            for _ in 0..n {
                if r.chance(0.1) {
                    e.raw(*r.pick(&[0xF8u8, 0xFE, 0xFA]));
                }
                e.raw(match r.below(4) {
                    0 => 0,
                    1 => 0x7F,
                    2 => 0x40,
                    _ => r.below(128) as u8,
                });
            }
        } else {
            // manufacturer id + a payload that looks like note / controller messages (sometimes a long dump)
            e.raw(*r.pick(&[0x41u8, 0x43, 0x00, 0x7D]));
            let len = if r.chance(0.25) { *r.pick(&[127u64, 128, 129, 130, 255, 256, 257, 600]) } else { r.below(12) };
            for _ in 0..len {
                e.raw(*r.pick(&[60u8, 100, 7, 1, 123, 121, 0, 127, 64]));
            }
        }
        match r.below(5) {
            0 => {} // unterminated: the next status byte ends it
            _ => e.raw(0xF7),
        }
        // traffic after it, with running status that must have been cancelled
        match r.below(4) {
            0 => {
                e.raw(61);
                e.raw(100);
            }
            1 => e.msg(0xB0 | ch, &[7, 20 + r.below(100) as u8], false),
            2 => e.msg(0x90 | ch, &[62 + r.below(5) as u8, 1 + r.below(127) as u8], false),
            _ => e.raw(0xF8),
        }
    }
    e.msg(0xB0 | ch, &[7, 99], false);
    e.msg(0x80 | ch, &[60, 0], false);
    // ... and a controller reset after all that must still restore the power-on values
    if r.chance(0.5) {
        e.msg(0xB0 | ch, &[121, 0], false);
        e.msg(0xB0 | ch, &[7, 127], false);
    }
    History { channel_arg, ops: e.ops }
}

/// registered / non-registered parameter sequences (CC 101/100, 99/98, data entry 6/38, increment 96 / decrement 97)
/// and bank select: none of these controller numbers may change anything, alone or in sequence (C06, C18)
pub fn gen_rpn_nrpn(r: &mut Rng, ch_arg: u8) -> History {
    let ch = ch_arg.min(15);
    let mut e = Emit::new();
    preset_controllers(&mut e, ch, r);
    for _ in 0..(4 + r.below(20)) {
        let run = r.chance(0.6);
        let (msb_cc, lsb_cc) = if r.chance(0.5) { (99u8, 98u8) } else { (101, 100) };
        let msb = *r.pick(&[0u8, 0, 0, 1, 2, 0x7F, 3]);
        let lsb = match r.below(4) {
            0 => *r.pick(&[1u8, 5, 7, 64, 65, 71, 74, 121, 123]),
            1 => *r.pick(&[0u8, 1, 2, 3, 4, 5, 0x7F]),
            _ => r.below(128) as u8,
        };
        if r.chance(0.85) {
            e.msg(0xB0 | ch, &[msb_cc, msb], run);
        }
        if r.chance(0.9) {
            e.msg(0xB0 | ch, &[lsb_cc, lsb], run);
        }
        if r.chance(0.2) {
            // something else in between
            match r.below(3) {
                0 => e.msg(0x90 | ch, &[70, 90], run),
                1 => e.msg(0xE0 | ch, &[r.below(128) as u8, r.below(128) as u8], run),
                _ => e.raw(0xF8),
            }
        }
        for _ in 0..(1 + r.below(3)) {
            match r.below(5) {
                0 | 1 => e.msg(0xB0 | ch, &[6, r.below(128) as u8], run),
                2 => e.msg(0xB0 | ch, &[38, r.below(128) as u8], run),
                3 => e.msg(0xB0 | ch, &[96, r.below(128) as u8], run),
                _ => e.msg(0xB0 | ch, &[97, r.below(128) as u8], run),
            }
        }
        if r.chance(0.3) {
            // the null parameter, bank select, a program change
            e.msg(0xB0 | ch, &[101, 0x7F], run);
            e.msg(0xB0 | ch, &[100, 0x7F], run);
            e.msg(0xB0 | ch, &[0, r.below(128) as u8], run);
            e.msg(0xB0 | ch, &[32, r.below(128) as u8], run);
            e.msg(0xC0 | ch, &[r.below(128) as u8], false);
        }
    }
    History { channel_arg: ch_arg, ops: e.ops }
}

/// a short message pattern repeated a power-of-two number of times while a key is held (a wrapped message or edge
/// counter would show in the polls and getters afterwards): 2^8 / 2^16 / 2^20 in the quick tier, 2^32 in the thorough tier
pub fn repeat_storms(ctx: &Ctx, want: &str) -> Report {
    if ctx.tier == Tier::Small {
        return Report::new();
    }
    let mut counts: Vec<u64> = vec![254, 255, 256, 257, 65_535, 65_536, 65_537, 1 << 20];
    if ctx.tier == Tier::Thorough {
        counts.extend([(1u64 << 32) - 1, 1 << 32]);
    }
    let mut jobs: Vec<(u64, u8)> = Vec::new();
    for c in &counts {
        for kind in 0..10u8 {
            // the 2^32 storms: retrigger mode with a key held from the start (kind 0) and a key struck shortly
            // before the count is reached (kind 4)
            if *c >= 1 << 31 && !(kind == 0 || kind == 4) {
                continue;
            }
            if kind == 4 && (*c == 254 || *c == 255 || *c == 257 || *c == 65_535 || *c == 65_537 || *c == (1u64 << 32) - 1) {
                continue;
            }
            jobs.push((*c, kind));
        }
    }
    // kind 10: n - d on/off pairs, then a rolled chord released newest-first (a press-order clock that wraps, or is
    // rescaled, at 2^8 / 2^16 note-ons must not lose the order of keys pressed around that moment)
    for c in [256u64, 65_536] {
        for d in 0..10u64 {
            jobs.push((c - d, 10));
        }
    }
    par_shards(ctx, jobs.len(), |j| {
        let mut rep = Report::new();
        let (n, kind) = jobs[j];
        let mut r = Rng::derive(ctx.seed, "midi.repeat", j as u64);
        let ch = r.below(16) as u8;
        let (drone, key) = (40 + r.below(20) as u8, 70 + r.below(20) as u8);
        let mut e = Emit::new();
        e.ops.push(Op::Retrigger(kind % 2 == 0));
        // Last priority for the note patterns of the largest counts (a strike-order stamp would wrap there)
        e.ops.push(Op::Priority(if n >= 1 << 31 || kind == 4 || kind == 10 { 0 } else { (j % 3) as u8 }));
        e.msg(0x90 | ch, &[drone, 90], false);
        e.ops.push(Op::PollRising);
        e.ops.push(Op::PollFalling);
        let pattern: Vec<u8> = match kind {
            0 | 1 | 4 | 10 => vec![0x90 | ch, key, 100, 0x80 | ch, key, 0],
            2 => vec![0x90 | ch, key, 100, key, 0],                              // running status, velocity-0 release
            3 => vec![0xB0 | ch, 1, 10, 1, 20, 0xE0 | ch, 5, 6, 0xB0 | ch, 7, 3], // controllers and pitch bend
            // messages that never complete, or that are not for this receiver: whatever counts them must not wrap
            5 => vec![0x90 | ch, key],            // a note-on cut short by the next status byte, n times
            6 => vec![0xB0 | ch, 7],              // the same for a control change
            7 => vec![0xF0, 0x7F, 0x01],          // SysEx restarted before it ends
            8 => vec![0xF8, 0xFE],                // real-time bytes only
            _ => vec![0x90 | ((ch + 1) % 16), key, 100, 0xB0 | ((ch + 5) % 16), 7, 1], // other channels' traffic
        };
        if kind == 4 {
            // almost n note-ons, then a second key struck and held, then enough further note-ons to pass n:
            // whatever orders the held notes must still put the newest strike last
            let late = drone + 7;
            let before = n.saturating_sub(40);
            e.ops.push(Op::Repeat(pattern.clone(), before));
            e.msg(0x90 | ch, &[late, 77], false);
            e.ops.push(Op::Repeat(pattern.clone(), 100));
            e.msg(0x90 | ch, &[key, 64], false);
            e.msg(0x80 | ch, &[key, 0], false);
            e.msg(0x80 | ch, &[late, 0], false);
        } else {
            e.ops.push(Op::Repeat(pattern, n));
        }
        if kind == 10 {
            // rolled chord, highest note first, released newest-first: after every release the most recent outstanding
            // key must be reported
            let chord = [drone + 30, drone + 20, drone + 10, drone + 5, drone + 3];
            for (q, k) in chord.iter().enumerate() {
                e.msg(0x90 | ch, &[*k, 60 + q as u8], q % 2 == 1);
            }
            for k in chord.iter().rev() {
                e.msg(0x80 | ch, &[*k, 0], false);
            }
        }
        // (the edge polls come first: the number of messages between two polls is exactly the storm's)
        e.ops.push(Op::PollRising);
        e.ops.push(Op::PollFalling);
        e.ops.push(Op::PollRising);
        // two keys pressed after the storm, the newer one released: the fallback is the other new key, not the key held
        // since before the storm
        let (ka, kb) = (drone + 9, drone + 4);
        e.msg(0x90 | ch, &[ka, 70], false);
        e.msg(0x90 | ch, &[kb, 71], true);
        e.msg(0x80 | ch, &[kb, 0], false);
        e.msg(0x80 | ch, &[ka, 0], false);
        e.msg(0x90 | ch, &[key, 64], false);
        e.ops.push(Op::PollRising);
        e.msg(0x80 | ch, &[key, 0], false);
        e.msg(0x80 | ch, &[drone, 0], false);
        e.ops.push(Op::PollFalling);
        e.ops.push(Op::PollRising);
        e.ops.push(Op::PollFalling);
        let h = History { channel_arg: ch, ops: e.ops };
        if j == 0 {
            rep.sample(h.brief());
        }
        // all getters and both latches are judged (whatever the wanted property, the storm is the same)
        let w = if want == "C17" { "C17" } else if want == "C05" { "C05" } else { want };
        if let Some(v) = execute(&h, w, &mut rep) {
            rep.violate(v);
        }
        rep.count("midi.repeat_storm_histories", 1);
        rep
    })
}

const RT: [u8; 8] = [0xF8, 0xF9, 0xFA, 0xFB, 0xFC, 0xFD, 0xFE, 0xFF];

/// unstructured bytes (C06): uniform / status-heavy / data-heavy, on a small note pool so that
/// releases cancel presses and the history stays within 32 outstanding notes for a while
pub fn gen_bytes(r: &mut Rng, n: usize) -> History {
    let channel_arg = r.below(16) as u8;
    let ch = channel_arg;
    let style = r.below(4);
    let mut ops = Vec::with_capacity(n);
    // mode switches are part of the public API: any framing rule must hold in every mode
    ops.push(Op::Retrigger(r.chance(0.5)));
    ops.push(Op::Priority(r.below(3) as u8));
    for _ in 0..n {
        if r.chance(0.004) {
            ops.push(if r.chance(0.5) { Op::Retrigger(r.chance(0.5)) } else { Op::Priority(r.below(3) as u8) });
        }
        let b = match style {
            0 => r.below(256) as u8,
            1 => {
                // status-heavy
                if r.chance(0.5) {
                    0x80 | r.below(128) as u8
                } else {
                    r.below(128) as u8
                }
            }
            2 => {
                // data-heavy on the listened channel: long running-status runs
                match r.below(20) {
                    0 => *r.pick(&[0x80u8, 0x90, 0xB0, 0xE0, 0xA0, 0xC0, 0xD0]) | ch,
                    1 => *r.pick(&RT),
                    2 => 0,
                    _ => *r.pick(&[0u8, 1, 5, 7, 60, 61, 64, 65, 71, 74, 120, 121, 122, 123, 124, 125, 126, 127, 63]),
                }
            }
            _ => {
                // own-channel statuses, small data alphabet, real-time and system bytes sprinkled in
                match r.below(10) {
                    0 | 1 => (0x80 | (r.below(7) as u8) << 4) | if r.chance(0.8) { ch } else { r.below(16) as u8 },
                    2 => 0xF0 | r.below(16) as u8,
                    3 => 0,
                    _ => *r.pick(&[0u8, 1, 2, 5, 7, 60, 62, 64, 65, 71, 74, 100, 120, 121, 122, 123, 124, 125, 126, 127]),
                }
            }
        };
        ops.push(Op::Byte(b));
        // the edge getters are outputs too: polled now and then, at positions unrelated to message boundaries
        if r.chance(0.03) {
            ops.push(if r.chance(0.5) { Op::PollRising } else { Op::PollFalling });
        }
    }
    History { channel_arg, ops }
}

/// a catalogue of well-formed base streams on channel `ch`
fn catalogue(ch: u8) -> Vec<Vec<u8>> {
    let o = (ch + 5) % 16;
    vec![
        vec![0x90 | ch, 60, 100, 0x80 | ch, 60, 0],
        vec![0x90 | ch, 60, 100, 62, 90, 64, 80, 60, 0, 62, 0, 64, 0],
        vec![0x90 | ch, 60, 100, 0x90 | ch, 67, 1, 0x80 | ch, 60, 64, 67, 64],
        vec![0x90 | ch, 10, 127, 0xB0 | ch, 123, 0, 0x90 | ch, 11, 5],
        vec![0xB0 | ch, 1, 64, 7, 127, 71, 3, 74, 99, 5, 77, 65, 0, 64, 127, 65, 64, 64, 63],
        vec![0xB0 | ch, 1, 10, 0xE0 | ch, 0, 64, 0x7F, 0x7F, 0, 0, 0xB0 | ch, 121, 0],
        vec![0xE0 | ch, 1, 2, 0x90 | ch, 40, 41, 0xE0 | ch, 3, 4, 0x80 | ch, 40, 0],
        vec![0x90 | o, 60, 100, 0x90 | ch, 61, 100, 0x80 | o, 61, 0, 0xB0 | o, 123, 0, 0xE0 | o, 5, 5, 0xB0 | o, 1, 99],
        vec![0xA0 | ch, 60, 100, 0xC0 | ch, 5, 6, 0xD0 | ch, 60, 100, 0x90 | ch, 60, 100],
        vec![0x90 | ch, 60, 0xF1, 100, 100, 0x90 | ch, 61, 101],
        vec![0x90 | ch, 60, 100, 0xF2, 61, 100, 62, 100, 0x90 | ch, 63, 100],
        vec![0x90 | ch, 60, 100, 0xF3, 61, 100, 0xF6, 62, 100, 0x80 | ch, 60, 0],
        vec![0xF0, 0x90 | ch & 0x7F, 60, 100, 0x43, 0x12, 60, 100, 0xF7, 60, 100, 0x90 | ch, 70, 100],
        vec![0x90 | ch, 60, 100, 0xF0, 61, 100, 62, 100, 0xF7, 63, 100, 0x90 | ch, 64, 100],
        vec![0x90 | ch, 60, 100, 0xF4, 61, 100, 0xF5, 62, 100, 0x90 | ch, 62, 1],
        vec![0x90 | ch, 60, 0x80 | ch, 60, 0x90 | ch, 61, 100, 62, 0xB0 | ch, 1, 0xE0 | ch, 5, 0x90 | ch, 65, 100],
        vec![60, 100, 61, 100, 0x90 | ch, 60, 100],
        vec![0xB0 | ch, 7, 100, 0x90 | ch, 60, 100, 0xB0 | ch, 121, 0, 123, 0, 0x90 | ch, 1, 1],
        // universal system exclusive messages (master volume / balance / fine tuning, GM on, device inquiry, MTC full frame)
        vec![0xB0 | ch, 7, 10, 0xF0, 0x7F, 0x7F, 0x04, 0x01, 0x7F, 0x7F, 0xF7, 0xF0, 0x7F, ch, 0x04, 0x01, 0x00, 0x40, 0xF7],
        vec![0xF0, 0x7F, 0x7F, 0x04, 0x02, 0x00, 0x7F, 0xF7, 0xF0, 0x7F, 0x7F, 0x04, 0x03, 0x00, 0x00, 0xF7, 0xF0, 0x7E, 0x7F, 0x09, 0x01, 0xF7, 0xF0, 0x7E, ch, 0x06, 0x01, 0xF7],
        vec![0xF0, 0x7F, 0x7F, 0x01, 0x01, 0x21, 0x3B, 0x3B, 0x1D, 0xF7, 0xF0, 0x7F, 0x7F, 0x04, 0x01, 0x11, 0x22, 0x90 | ch, 60, 100],
        // channel mode messages on the listened channel, then traffic on other channels that must still be ignored
        vec![0xB0 | ch, 125, 0, 0x90 | o, 60, 100, 0xB0 | o, 7, 99, 1, 98, 0xE0 | o, 1, 2, 0xB0 | ch, 124, 0, 0x90 | o, 61, 100],
        vec![0xB0 | ch, 126, 1, 0x90 | o, 62, 100, 0xB0 | ch, 127, 0, 0x90 | o, 63, 100, 0xB0 | ch, 122, 0, 120, 0, 0xB0 | o, 64, 0, 65, 0, 0x80 | o, 62, 0],
        vec![0xB0 | ch, 126, 0, 127, 0, 125, 0, 0xB0 | (ch + 1) % 16, 1, 127, 0x90 | (ch + 15) % 16, 70, 70, 0xE0 | (ch + 8) % 16, 0, 0],
    ]
}

/// base stream with real-time bytes inserted (C06): at one split point, or at random points
pub fn gen_catalogue(r: &mut Rng, ch: u8, which: usize, split: Option<usize>) -> History {
    let cat = catalogue(ch);
    let base = &cat[which % cat.len()];
    let mut ops = vec![Op::Retrigger(r.chance(0.5)), Op::Priority(r.below(3) as u8)];
    for (i, b) in base.iter().enumerate() {
        match split {
            Some(s) if s == i => {
                // mostly one to three real-time bytes; sometimes a long run of them (a clock that keeps ticking while
                // the sender pauses in mid-message: a quarter note is 24 clocks, a bar 96)
                let n = if r.chance(0.15) { *r.pick(&[23u64, 24, 25, 48, 96, 97, 255, 256, 257, 1000]) } else { 1 + r.below(3) };
                let same = r.chance(0.5);
                for _ in 0..n {
                    ops.push(Op::Byte(if same { 0xF8 } else { *r.pick(&RT) }));
                }
            }
            None => {
                while r.chance(0.3) {
                    ops.push(Op::Byte(*r.pick(&RT)));
                }
            }
            _ => {}
        }
        ops.push(Op::Byte(*b));
        if split.is_none() && r.chance(0.1) {
            ops.push(if r.chance(0.5) { Op::PollRising } else { Op::PollFalling });
        }
    }
    ops.push(Op::Byte(0xF8));
    ops.push(Op::PollFalling);
    ops.push(Op::PollRising);
    History { channel_arg: ch, ops }
}

/// C18: the whole controller table and all pitch-bend values on one listened channel
pub fn gen_controller_table(ch: u8, foreign: bool, running: bool) -> History {
    let tx = if foreign { (ch + 1 + (ch % 14)) % 16 } else { ch };
    let mut e = Emit::new();
    for cc in 0..128u8 {
        if cc == 123 || cc == 121 {
            // set something first so that the effect of 121 (and the non-effect of 123) is visible
            e.msg(0xB0 | tx, &[1, 33], running);
            e.msg(0xE0 | tx, &[7, 99], running);
            e.msg(0xB0 | tx, &[65, 0], running);
        }
        for v in 0..128u8 {
            e.msg(0xB0 | tx, &[cc, v], running);
        }
        if !foreign {
            // whatever this controller number did, it must not have made the receiver listen to other channels
            let o = (ch + 1 + cc % 15) % 16;
            e.msg(0x90 | o, &[cc, 100], false);
            e.msg(0xB0 | o, &[1, 99], false);
            e.msg(0xE0 | o, &[3, 4], false);
            e.msg(0x80 | o, &[cc, 0], false);
        }
    }
    History { channel_arg: ch, ops: e.ops }
}

pub fn gen_pitch_bends(ch: u8, foreign: bool, descending: bool) -> History {
    let tx = if foreign { (ch + 3) % 16 } else { ch };
    let mut e = Emit::new();
    for k in 0..16384u32 {
        let x = if descending { 16383 - k } else { k };
        e.msg(0xE0 | tx, &[(x & 0x7F) as u8, (x >> 7) as u8], k % 3 != 0);
    }
    History { channel_arg: ch, ops: e.ops }
}

/// pitch-bend values in orders other than the full sweep, on a fresh receiver: coarse wheels that only ever send
/// LSB 0 (or another constant LSB), repeats, alternating extremes, random order - the value reported must be the
/// function of the 14-bit number alone that the scaling table records
pub fn gen_pitch_bend_pattern(r: &mut Rng, ch: u8, kind: usize) -> History {
    let mut e = Emit::new();
    let mut send = |e: &mut Emit, x: u32, run: bool| e.msg(0xE0 | ch, &[(x & 0x7F) as u8, (x >> 7) as u8], run);
    match kind % 8 {
        0 => (0..128u32).for_each(|m| send(&mut e, m << 7, m % 2 == 1)),
        1 => (0..128u32).rev().for_each(|m| send(&mut e, m << 7, false)),
        2 => {
            let lsb = *r.pick(&[0u32, 0, 1, 64, 127]);
            for _ in 0..300 {
                send(&mut e, (r.below(128) as u32) << 7 | lsb, r.chance(0.5));
            }
        }
        3 => {
            for k in 0..200u32 {
                send(&mut e, if k % 2 == 0 { 0 } else { 16383 }, k % 3 == 0);
                if k % 5 == 0 {
                    send(&mut e, 8192, false);
                }
            }
        }
        4 => {
            for _ in 0..100 {
                let x = r.below(16384) as u32;
                for _ in 0..1 + r.below(3) {
                    send(&mut e, x, r.chance(0.5));
                }
            }
        }
        5 => {
            // multiples of 128 first, then one fine value, then multiples of 128 again
            for _ in 0..40 {
                send(&mut e, (r.below(128) as u32) << 7, r.chance(0.5));
            }
            send(&mut e, r.below(16384) as u32 | 1, false);
            for _ in 0..40 {
                send(&mut e, (r.below(128) as u32) << 7, r.chance(0.5));
            }
        }
        6 => {
            // the top and bottom MSB with every LSB
            for l in 0..128u32 {
                send(&mut e, 127 << 7 | l, l % 2 == 0);
                send(&mut e, l, false);
                send(&mut e, 64 << 7 | l, true);
            }
        }
        _ => {
            for _ in 0..300 {
                let x = if r.chance(0.4) { (r.below(128) as u32) << 7 } else { r.below(16384) as u32 };
                send(&mut e, x, r.chance(0.4));
            }
        }
    }
    History { channel_arg: ch, ops: e.ops }
}

/// other channels' messages with real-time bytes inside them, right after a controller / pitch-bend message on the
/// listened channel has left the receiver in running-status state: none of their data bytes may be taken for ours
pub fn gen_foreign_with_realtime(r: &mut Rng) -> History {
    let channel_arg = r.below(16) as u8;
    let ch = channel_arg;
    let mut e = Emit::new();
    preset_controllers(&mut e, ch, r);
    for _ in 0..(6 + r.below(20)) {
        // our own message first (explicit or running status)
        match r.below(4) {
            0 => e.msg(0xB0 | ch, &[*r.pick(&[1u8, 5, 7, 64, 65, 71, 74]), r.below(128) as u8], r.chance(0.3)),
            1 => e.msg(0xE0 | ch, &[r.below(128) as u8, r.below(128) as u8], r.chance(0.3)),
            2 => e.msg(0x90 | ch, &[60 + r.below(6) as u8, r.below(128) as u8], false),
            _ => {}
        }
        // then one to three messages for another channel, real-time bytes after the status byte / between data bytes
        let other = (ch + 1 + r.below(15) as u8) % 16;
        for _ in 0..1 + r.below(3) {
            let status = *r.pick(&[0xB0u8, 0xE0, 0x90, 0x80, 0xA0, 0xC0, 0xD0]) | other;
            let n_data = if status & 0xF0 == 0xC0 || status & 0xF0 == 0xD0 { 1 } else { 2 };
            if !r.chance(0.2) {
                e.raw(status);
            }
            for _ in 0..n_data {
                while r.chance(0.4) {
                    e.raw(*r.pick(&RT));
                }
                e.raw(*r.pick(&[0u8, 1, 7, 64, 127, 100, 60, 74]));
            }
        }
    }
    e.msg(0xB0 | ch, &[7, 99], false);
    History { channel_arg, ops: e.ops }
}

/// mode setters dropped between arbitrary bytes of a history (also inside a message or a running-status run); every
/// one really changes the mode. Framing and every controller output must be unaffected by them
pub fn sprinkle_mode_setters(r: &mut Rng, ops: &mut Vec<Op>, p: f64) {
    let (mut retrig, mut prio) = (false, 0u8);
    let mut out = Vec::with_capacity(ops.len() + ops.len() / 4);
    for op in ops.drain(..) {
        match &op {
            Op::Retrigger(b) => retrig = *b,
            Op::Priority(q) => prio = *q,
            _ => {}
        }
        if matches!(op, Op::Byte(_)) && r.chance(p) {
            if r.chance(0.5) {
                retrig = !retrig;
                out.push(Op::Retrigger(retrig));
            } else {
                prio = (prio + 1 + r.below(2) as u8) % 3;
                out.push(Op::Priority(prio));
            }
        }
        out.push(op);
    }
    *ops = out;
}

/// controllers interleaved with note traffic (C18: neither disturbs the other)
pub fn gen_controllers_and_notes(r: &mut Rng, n: usize) -> History {
    let channel_arg = r.below(16) as u8;
    let ch = channel_arg.min(15);
    let mut e = Emit::new();
    let mut held = 0usize;
    for _ in 0..n {
        let run = r.chance(0.4);
        match r.below(10) {
            0..=3 => {
                let cc = if r.chance(0.7) { *r.pick(&[1u8, 5, 7, 64, 65, 71, 74, 121, 123]) } else { r.below(128) as u8 };
                if cc == 123 {
                    held = 0;
                }
                let v = if r.chance(0.3) { *r.pick(&[0u8, 1, 63, 64, 65, 126, 127]) } else { r.below(128) as u8 };
                e.msg(0xB0 | ch, &[cc, v], run);
            }
            4 | 5 => e.msg(0xE0 | ch, &[if r.chance(0.3) { 0 } else { r.below(128) as u8 }, r.below(128) as u8], run),
            6 | 7 => {
                if held < 30 {
                    held += 1;
                    e.msg(0x90 | ch, &[r.below(8) as u8 + 50, 1 + r.below(127) as u8], run);
                }
            }
            8 => {
                held = 0; // conservative: the generator only needs an upper bound
                e.msg(0xB0 | ch, &[123, 0], run);
            }
            _ => {
                let o = (ch + 1 + r.below(15) as u8) % 16;
                e.msg(0xB0 | o, &[*r.pick(&[1u8, 7, 121, 123, 64]), r.below(128) as u8], false);
            }
        }
        if r.chance(0.05) {
            e.raw(*r.pick(&RT));
        }
    }
    History { channel_arg, ops: e.ops }
}

/// C18: scaling tables read from the real receiver and judged against the property's numbers
pub fn check_scaling(rep: &mut Report) {
    let mut fails: Vec<Violation> = Vec::new();
    let mut evals: u64 = 0;
    let mut fail = |clause: &str, msg: String, replay: String| {
        fails.push(Violation { clause: clause.into(), signature: format!("C18:{}", clause), message: msg, replay });
    };
    let pb = pb_table();
    evals += 16384;
    let replay_pb = |x: usize| gen_one(0, &[0xE0, (x & 0x7F) as u8, (x >> 7) as u8]).to_text("C18", 10);
    if pb[0] != -1.0 {
        fail("pitch-bend-min", format!("pitch bend 0 gives {} instead of -1.0", pb[0]), replay_pb(0));
    }
    if pb[8192] != 0.0 {
        fail("pitch-bend-centre", format!("pitch bend 8192 gives {} instead of exactly 0.0", pb[8192]), replay_pb(8192));
    }
    if pb[16383] != 1.0 {
        fail("pitch-bend-max", format!("pitch bend 16383 gives {} instead of +1.0", pb[16383]), replay_pb(16383));
    }
    for x in 1..16384 {
        if !(pb[x] > pb[x - 1]) {
            fail("pitch-bend-monotonic", format!("pitch bend is not strictly increasing: value {} -> {}, value {} -> {}", x - 1, pb[x - 1], x, pb[x]), replay_pb(x));
            break;
        }
    }
    for (cc, name) in [(1u8, "mod_wheel"), (7, "volume"), (71, "vcf_cutoff"), (74, "vcf_resonance"), (5, "portamento_time")] {
        let mut prev = -1.0f32;
        for v in 0..128u8 {
            let mut m = MonoMidiReceiver::new(3);
            m.parse(0xB3);
            m.parse(cc);
            m.parse(v);
            let o = read_out(&m);
            let got = match cc {
                1 => o.mw,
                7 => o.vol,
                71 => o.cut,
                74 => o.res,
                _ => o.pt,
            };
            evals += 1;
            let want = v as f64 / 127.0;
            let ok = if v == 0 {
                got == 0.0
            } else if v == 127 {
                got == 1.0
            } else {
                (got as f64 - want).abs() <= 6.0e-8 && got > prev
            };
            if !ok {
                fail("controller-scaling", format!("controller {} value {}: {}() = {} expected {}/127 = {:.9} (previous value gave {})", cc, v, name, got, v, want, prev), gen_one(3, &[0xB3, cc, v]).to_text("C18", 10));
                break;
            }
            prev = got;
        }
    }
    rep.evaluations += evals;
    rep.count("midi.c18.pitch_bend_values", 16384);
    rep.count("midi.c18.scaling_points", 5 * 128);
    for v in fails {
        rep.violate(v);
    }
}

fn gen_one(ch: u8, bytes: &[u8]) -> History {
    History { channel_arg: ch, ops: bytes.iter().map(|b| Op::Byte(*b)).collect() }
}

/// C20 part: every constructor argument listens on min(c, 15) and on nothing else
pub fn check_channel_clamp(rep: &mut Report, want: &str) {
    for c in 0..=255u8 {
        let mut e = Emit::new();
        for tx in 0..16u8 {
            e.msg(0x90 | tx, &[40 + tx, 100], false);
            e.msg(0xB0 | tx, &[7, 10 + tx], false);
            e.msg(0xE0 | tx, &[tx, 64 + tx], false);
            e.msg(0xB0 | tx, &[64, 10 * tx], false);
            e.msg(0x80 | tx, &[40 + tx, 0], false);
            e.msg(0x90 | tx, &[50 + tx, 1], false);
            e.msg(0xB0 | tx, &[123, 0], false);
        }
        let h = History { channel_arg: c, ops: e.ops };
        // the reference listens on min(c,15): any deviation shows as a getter mismatch
        if let Some(mut v) = execute(&h, "ALL", rep) {
            v.signature = format!("{}:channel-clamp", want);
            v.clause = "channel-clamp".into();
            v.message = format!("MonoMidiReceiver::new({}) does not behave like channel {}: {}", c, c.min(15), v.message);
            v.replay = h.to_text(want, h.ops.len());
            rep.violate(v);
        }
        rep.count("midi.channel_args_checked", 1);
    }
}

pub fn run(ctx: &Ctx, prop: &str) -> Report {
    let mut rep = Report::new();
    let small = ctx.tier == Tier::Small;
    let stage = |name: &str, r: Report, rep: &mut Report, t0: std::time::Instant| {
        let ev = r.evaluations;
        rep.merge(r);
        rep.stages.push((name.to_string(), t0.elapsed().as_secs_f64(), ev));
    };
    match prop {
        "C04" | "C05" => {
            let t = std::time::Instant::now();
            let n_hist = ctx.budget(20, 30_000, 3_000_000) as usize;
            let shards = if small { 2 } else { 64 };
            let r = par_shards(ctx, shards, |s| {
                let mut rep = Report::new();
                let mut r = Rng::derive(ctx.seed, "midi.notes", s as u64);
                for j in 0..(n_hist + shards - 1) / shards {
                    let n = if small { 60 } else { 50 + r.below(600) as usize };
                    let strict = prop == "C05" && j % 3 == 0;
                    let rate = if prop == "C05" { *r.pick(&[0.05, 0.2, 0.5, 0.9]) } else { 0.05 };
                    let h = gen_notes_x(&mut r, n, rate, strict, prop == "C05" && j % 4 == 1);
                    run_and_record(&h, prop, &mut rep, s == 0 && j < 3);
                    if j % 8 == 3 {
                        let h = gen_full_buffer(&mut r, prop == "C05");
                        run_and_record(&h, prop, &mut rep, false);
                        rep.count("midi.full_buffer_histories", 1);
                    }
                    if s == 1 && j == 0 && !small {
                        // counts around 2^16: 70 000 melody notes over a held key
                        let h = gen_drone_melody(&mut r, 70_000, prop == "C05");
                        run_and_record(&h, prop, &mut rep, false);
                        rep.count("midi.very_long_histories", 1);
                    }
                    if j % 16 == 5 {
                        // a held key under a long melody; for C05 the melody runs without a single edge poll
                        let len = *r.pick(&[40usize, 254, 255, 256, 257, 300, 511, 512, 513, 700]);
                        let h = gen_drone_melody(&mut r, if small { 40 } else { len }, prop == "C05");
                        run_and_record(&h, prop, &mut rep, false);
                        rep.count("midi.drone_melody_histories", 1);
                    }
                }
                rep
            });
            stage("midi.note_traffic", r, &mut rep, t);
            let t = std::time::Instant::now();
            stage("midi.repeat_storms", repeat_storms(ctx, prop), &mut rep, t);
            if !small {
                rep.floor("midi.drone_melody_histories", 50);
                rep.floor("midi.full_buffer_histories", 100);
                rep.floor("midi.very_long_histories", 1);
                for e in ["NoteOnRaises", "NoteOnLegato", "NoteOffLast", "NoteOffSome", "NoteOffStrayGateLow", "NoteOffStrayGateHigh", "AllOffGateHigh", "AllOffGateLow"] {
                    rep.floor(&format!("midi.effect.{}", e), 200);
                }
                if prop == "C05" {
                    rep.floor("midi.c05.observed_gate_mode.note_on", 200);
                    rep.floor("midi.c05.observed_gate_mode.gate_drop", 50);
                    for k in ["rising.true", "rising.false", "falling.true", "falling.false"] {
                        rep.floor(&format!("midi.poll.{}", k), 200);
                    }
                }
            }
        }
        "C06" => {
            let t = std::time::Instant::now();
            // every catalogue stream x every split point x all 16 channels
            let chans: Vec<u8> = if small { vec![0, 9] } else { (0..16).collect() };
            let r = par_shards(ctx, chans.len(), |c| {
                let mut rep = Report::new();
                let ch = chans[c];
                let mut r = Rng::derive(ctx.seed, "midi.catalogue", c as u64);
                let n_cat = catalogue(ch).len();
                for w in 0..n_cat {
                    let len = catalogue(ch)[w].len();
                    run_and_record(&gen_catalogue(&mut r, ch, w, Some(usize::MAX)), prop, &mut rep, false);
                    for sp in 0..len {
                        run_and_record(&gen_catalogue(&mut r, ch, w, Some(sp)), prop, &mut rep, c == 0 && w == 9 && sp == 2);
                        rep.count("midi.realtime_split_points", 1);
                    }
                    for _ in 0..(if small { 1 } else { 20 }) {
                        run_and_record(&gen_catalogue(&mut r, ch, w, None), prop, &mut rep, false);
                    }
                }
                rep
            });
            stage("midi.catalogue_with_realtime_insertions", r, &mut rep, t);
            let t = std::time::Instant::now();
            let n_hist = ctx.budget(10, 100_000, 8_000_000) as usize;
            let shards = if small { 2 } else { 64 };
            let r = par_shards(ctx, shards, |s| {
                let mut rep = Report::new();
                let mut r = Rng::derive(ctx.seed, "midi.bytes", s as u64);
                for j in 0..(n_hist + shards - 1) / shards {
                    let h = gen_bytes(&mut r, if small { 150 } else { 500 });
                    run_and_record(&h, prop, &mut rep, s == 0 && j < 2);
                }
                rep
            });
            stage("midi.unstructured_bytes", r, &mut rep, t);
            let t = std::time::Instant::now();
            let n_sx = ctx.budget(6, 20_000, 1_000_000) as usize;
            let r = par_shards(ctx, shards, |s| {
                let mut rep = Report::new();
                let mut r = Rng::derive(ctx.seed, "midi.sysex", s as u64);
                for j in 0..(n_sx + shards - 1) / shards {
                    let h = if j % 2 == 0 { gen_sysex(&mut r) } else { let c = r.below(16) as u8; gen_rpn_nrpn(&mut r, c) };
                    run_and_record(&h, prop, &mut rep, s == 0 && j < 2);
                    rep.count("midi.sysex_and_parameter_number_histories", 1);
                }
                rep
            });
            stage("midi.universal_sysex_and_rpn_nrpn", r, &mut rep, t);
            let t = std::time::Instant::now();
            stage("midi.repeat_storms", repeat_storms(ctx, prop), &mut rep, t);
            if !small {
                rep.floor("midi.realtime_split_points", 16 * 100);
                rep.floor("midi.bytes", 1_000_000);
                for e in ["NoteOnRaises", "NoteOffLast", "Controller", "PitchBend", "Foreign", "Unsupported", "ResetControllers", "AllOffGateHigh"] {
                    rep.floor(&format!("midi.effect.{}", e), 100);
                }
            }
        }
        "C18" => {
            let t = std::time::Instant::now();
            let mut r0 = Report::new();
            check_scaling(&mut r0);
            stage("midi.scaling_tables", r0, &mut rep, t);
            let t = std::time::Instant::now();
            let chans: Vec<u8> = if small { vec![5] } else { (0..16).collect() };
            let r = par_shards(ctx, chans.len(), |c| {
                let mut rep = Report::new();
                let ch = chans[c];
                if small {
                    let mut h = gen_controller_table(ch, false, true);
                    h.ops.truncate(3000);
                    run_and_record(&h, prop, &mut rep, true);
                    return rep;
                }
                run_and_record(&gen_controller_table(ch, false, false), prop, &mut rep, c == 0);
                run_and_record(&gen_controller_table(ch, false, true), prop, &mut rep, false);
                run_and_record(&gen_controller_table(ch, true, c % 2 == 0), prop, &mut rep, false);
                run_and_record(&gen_pitch_bends(ch, false, c % 2 == 1), prop, &mut rep, false);
                run_and_record(&gen_pitch_bends(ch, true, false), prop, &mut rep, false);
                let mut rr = Rng::derive(ctx.seed, "midi.pitch_bend_patterns", ch as u64);
                for kind in 0..16 {
                    run_and_record(&gen_pitch_bend_pattern(&mut rr, ch, kind), prop, &mut rep, false);
                    rep.count("midi.c18.pitch_bend_pattern_histories", 1);
                }
                rep.count("midi.c18.channels_swept", 1);
                rep
            });
            stage("midi.controller_table_all_channels", r, &mut rep, t);
            let t = std::time::Instant::now();
            let n_hist = ctx.budget(6, 20_000, 2_000_000) as usize;
            let shards = if small { 1 } else { 64 };
            let r = par_shards(ctx, shards, |s| {
                let mut rep = Report::new();
                let mut r = Rng::derive(ctx.seed, "midi.cc_notes", s as u64);
                for j in 0..(n_hist + shards - 1) / shards {
                    let h = if j % 3 == 2 {
                        let c = r.below(16) as u8;
                        gen_rpn_nrpn(&mut r, c)
                    } else if j % 7 == 4 || j % 7 == 0 {
                        // universal SysEx messages (master volume, GM on/off, ...) are not controllers: no controller
                        // output may follow them, nor may they change what a later controller reset restores
                        rep.count("midi.c18.sysex_histories", 1);
                        gen_sysex(&mut r)
                    } else if j % 7 == 5 {
                        rep.count("midi.c18.foreign_messages_with_realtime_inside", 1);
                        gen_foreign_with_realtime(&mut r)
                    } else if j % 7 == 3 {
                        // controllers while the note buffer fills up and overruns (they must not care)
                        let mut h = if r.chance(0.5) { gen_notes_x(&mut r, 200, 0.0, false, true) } else { gen_full_buffer(&mut r, false) };
                        let ch = h.channel_arg.min(15);
                        let mut pre = Emit::new();
                        preset_controllers(&mut pre, ch, &mut r);
                        pre.ops.extend(h.ops);
                        h.ops = pre.ops;
                        h
                    } else {
                        let mut h = gen_controllers_and_notes(&mut r, if small { 100 } else { 400 });
                        if j % 2 == 0 {
                            // the mode setters are public operations too: called between any two bytes
                            let p = *r.pick(&[0.02, 0.1, 0.3]);
                            sprinkle_mode_setters(&mut r, &mut h.ops, p);
                            rep.count("midi.c18.histories_with_mode_setters_between_bytes", 1);
                        }
                        h
                    };
                    // controllers must not disturb notes (clause controller-moves-note-outputs) and notes must not disturb
                    // controllers (controller getters compared after every byte); note tracking itself is C04's subject
                    if let Some(v) = execute(&h, "C18", &mut rep) {
                        rep.violate(v);
                    }
                    if s == 0 && j < 2 {
                        rep.sample(h.brief());
                    }
                }
                rep
            });
            stage("midi.controllers_interleaved_with_notes", r, &mut rep, t);
            let t = std::time::Instant::now();
            stage("midi.repeat_storms", repeat_storms(ctx, "C18"), &mut rep, t);
            if !small {
                rep.floor("midi.c18.channels_swept", 16);
                rep.floor("midi.effect.ResetControllers", 1000);
                rep.floor("midi.effect.ControllerIgnored", 100_000);
                rep.exhaustive = Some("16 listened channels x 128 controller numbers x 128 values (explicit and running status) on the listened channel and on a foreign channel; all 16384 pitch-bend values per channel".into());
            }
        }
        _ => {}
    }
    rep
}

pub fn replay(t: &Text, want: &str, rep: &mut Report) -> Result<Option<Violation>, String> {
    let h = History::parse(t)?;
    if want == "C18" || want == "C20" {
        let mut v = execute(&h, "ALL", rep);
        if let Some(v) = v.as_mut() {
            v.signature = format!("{}:{}", want, v.clause);
        }
        return Ok(v);
    }
    Ok(execute(&h, want, rep))
}
