//! C17: no panic, no arithmetic overflow, no hang, for arguments in the documented ranges.
//! The union of the hostile generators of all modules, run with every API call inside catch_unwind
//! in a build with overflow checks and debug assertions on; plus an argument fuzzer that draws
//! constructor and method arguments from the edges of the documented ranges. Hangs are decided on
//! logical progress (the C02 duration bound), never on wall-clock time.

use crate::report::{guard, par_shards, Ctx, Report, Tier, Violation};
use crate::replay::{f, pf, pu, Text};
use crate::rng::Rng;
use crate::{adsr, glide, lfo, midi, quant, ribbon};
use synth_utils::adsr::{Adsr, Input};
use synth_utils::glide_processor::GlideProcessor;
use synth_utils::lfo::{Lfo, Waveshape};
use synth_utils::quantizer::{Note, Quantizer};

fn fs_any(r: &mut Rng) -> f32 {
    match r.below(6) {
        0 => 100.0,
        1 => 192_000.0,
        2 => *r.pick(&[100.000_01f32, 191_999.98, 44_100.0, 48_000.0, 1000.0, 999.0, 128.0]),
        _ => r.log_uniform(100.0, 192_000.0) as f32,
    }
}

/// one argument-fuzzer call sequence on fresh objects; returns the text of the sequence for replay
#[derive(Clone, Debug)]
pub struct ArgCase {
    pub kind: u8,
    pub fs: f32,
    pub args: Vec<f32>,
}

impl ArgCase {
    pub fn to_text(&self) -> String {
        let mut t = Text::new();
        t.set("property", "C17").set("module", "c17-args").set("kind", self.kind.to_string()).set("fs", format!("{}  # {}", f(self.fs), self.fs));
        for a in &self.args {
            t.ops.push(format!("arg {}  # {:e}", f(*a), a));
        }
        t.to_text()
    }
    pub fn parse(t: &Text) -> Result<Self, String> {
        let mut args = Vec::new();
        for l in &t.ops {
            let mut it = l.split_whitespace();
            it.next();
            args.push(pf(it.next().ok_or("arg")?)?);
        }
        Ok(ArgCase { kind: pu(t.get("kind")?)? as u8, fs: pf(t.get("fs")?)?, args })
    }
    /// run the calls; Err(panic message)
    pub fn run(&self) -> Result<u64, String> {
        let fs = self.fs;
        let a = &self.args;
        guard(|| {
            let mut calls = 0u64;
            match self.kind {
                0 => {
                    // ADSR: any finite (and non-finite, via the clamping conversions) parameter, ticks in every phase
                    let mut e = Adsr::new(fs);
                    for (i, x) in a.iter().enumerate() {
                        match i % 4 {
                            0 => e.set_input(Input::Attack((*x).into())),
                            1 => e.set_input(Input::Decay((*x).into())),
                            2 => e.set_input(Input::Sustain((*x).into())),
                            _ => e.set_input(Input::Release((*x).into())),
                        }
                        if i % 3 == 0 {
                            e.gate_on();
                        }
                        for _ in 0..5 {
                            e.tick();
                            std::hint::black_box(e.value());
                        }
                        if i % 5 == 4 {
                            e.gate_off();
                        }
                        calls += 8;
                    }
                }
                1 => {
                    // LFO: frequency in [0, fs] (args are fractions of fs), phase any finite value
                    let mut l = Lfo::new(fs);
                    for (i, x) in a.iter().enumerate() {
                        if i % 2 == 0 {
                            let fr = if x.is_finite() { (x.abs().fract() * fs).min(fs) } else { fs };
                            l.set_frequency(if i % 6 == 0 { fs } else { fr });
                        } else if x.is_finite() {
                            l.set_phase(*x);
                        }
                        for _ in 0..4 {
                            l.tick();
                            for w in [Waveshape::Sine, Waveshape::Triangle, Waveshape::UpSaw, Waveshape::DownSaw, Waveshape::Square] {
                                std::hint::black_box(l.get(w));
                            }
                        }
                        calls += 25;
                    }
                    l.reset();
                }
                2 => {
                    // glide: any time >= 0, any finite input
                    let mut g = GlideProcessor::new(fs);
                    for (i, x) in a.iter().enumerate() {
                        if i % 2 == 0 {
                            let t = if x.is_nan() { 0.0 } else { x.abs() };
                            g.set_time(t);
                        }
                        let v = if x.is_finite() { *x } else { 1.0 };
                        for _ in 0..4 {
                            std::hint::black_box(g.process(v.clamp(-1e6, 1e6)));
                        }
                        calls += 5;
                    }
                }
                _ => {
                    // quantizer: every f32 bit pattern is a legal input
                    let mut q = Quantizer::new();
                    for (i, x) in a.iter().enumerate() {
                        if i % 7 == 3 {
                            q.forbid(&[Note::from((x.to_bits() >> 3) as u8), Note::from((x.to_bits() >> 11) as u8)]);
                        }
                        if i % 11 == 5 {
                            q.allow(&[Note::from((x.to_bits() >> 5) as u8)]);
                        }
                        if i % 13 == 0 {
                            q.forbid(&[]);
                            q.allow(&[]);
                        }
                        std::hint::black_box(q.convert(*x));
                        calls += 1;
                    }
                }
            }
            calls
        })
    }
}

fn any_arg(r: &mut Rng) -> f32 {
    match r.below(10) {
        0 => *r.pick(&[0.0f32, -0.0, 1.0, -1.0, f32::MAX, f32::MIN, f32::MIN_POSITIVE, 1e-45, -1e-45, f32::INFINITY, f32::NEG_INFINITY, f32::NAN, 0.001, 20.0, 10.0, 0.5]),
        1 | 2 => r.any_f32(),
        3 => r.finite_f32(),
        4 => r.log_uniform(1e-6, 1e6) as f32,
        5 => -(r.log_uniform(1e-6, 1e6) as f32),
        6 => (r.below(1 << 20) as f32) / 1024.0,
        _ => r.uniform(-2.0, 12.0) as f32,
    }
}

pub fn arg_fuzz(ctx: &Ctx) -> Report {
    let n = ctx.budget(40, 200_000, 20_000_000) as usize;
    let shards = if ctx.tier == Tier::Small { 1 } else { 64 };
    par_shards(ctx, shards, |sh| {
        let mut rep = Report::new();
        let mut r = Rng::derive(ctx.seed, "c17.args", sh as u64);
        for j in 0..(n + shards - 1) / shards {
            let kind = (j % 4) as u8;
            let case = ArgCase { kind, fs: fs_any(&mut r), args: (0..(4 + r.below(24))).map(|_| any_arg(&mut r)).collect() };
            match case.run() {
                Ok(c) => {
                    rep.evaluations += c;
                    rep.count(&format!("c17.arg_cases.{}", ["adsr", "lfo", "glide", "quantizer"][kind as usize]), 1);
                }
                Err(p) => rep.violate(Violation { clause: "panic".into(), signature: format!("C17:panic:{}", p), message: format!("{} call sequence panicked: {} (fs={}, args {:?})", ["adsr", "lfo", "glide", "quantizer"][kind as usize], p, case.fs, case.args), replay: case.to_text() }),
            }
            rep.class(("args", kind, case.args.iter().filter(|x| !x.is_finite()).count().min(3), (case.fs as f64).log10() as i64));
            if sh == 0 && j < 2 {
                rep.sample(format!("{:?}", case));
            }
        }
        rep
    })
}

pub fn run(ctx: &Ctx) -> Report {
    let mut rep = Report::new();
    let small = ctx.tier == Tier::Small;
    let want = "C17";
    let stage = |name: &str, r: Report, rep: &mut Report, t0: std::time::Instant| {
        let ev = r.evaluations;
        rep.merge(r);
        rep.stages.push((name.to_string(), t0.elapsed().as_secs_f64(), ev));
    };
    // ADSR: panics, overflow, and hangs (bounded progress)
    let t0 = std::time::Instant::now();
    stage("c17.adsr.directed", adsr::directed(ctx, want), &mut rep, t0);
    let t0 = std::time::Instant::now();
    stage("c17.adsr.random", adsr::random(ctx, want), &mut rep, t0);
    let t0 = std::time::Instant::now();
    stage("c17.adsr.long_counts", adsr::long_counts(ctx, want), &mut rep, t0);
    // every (fs, T) combination class: gate_on must reach sustain, gate_off must reach rest
    let t0 = std::time::Instant::now();
    let n_plane = ctx.budget(10, 10_000, 1_000_000) as usize;
    let shards = if small { 1 } else { 64 };
    let r = par_shards(ctx, shards, |sh| {
        let mut rep = Report::new();
        let mut r = Rng::derive(ctx.seed, "c17.adsr.plane", sh as u64);
        for j in 0..(n_plane + shards - 1) / shards {
            let fs = fs_any(&mut r);
            let h = adsr::gen_cycle(&mut r, fs, if small { 20.0 } else { 400.0 });
            adsr::run_and_record(&h, want, &mut rep, sh == 0 && j < 1);
            rep.count("c17.adsr.envelopes_run_to_sustain_and_rest", 1);
        }
        rep
    });
    stage("c17.adsr.fs_T_plane", r, &mut rep, t0);
    let t0 = std::time::Instant::now();
    stage("c17.lfo.directed", lfo::directed(ctx, want), &mut rep, t0);
    let t0 = std::time::Instant::now();
    stage("c17.lfo.random", lfo::random(ctx, want), &mut rep, t0);
    // MIDI: arbitrary bytes
    let t0 = std::time::Instant::now();
    let n_midi = ctx.budget(10, 20_000, 2_000_000) as usize;
    let r = par_shards(ctx, shards, |sh| {
        let mut rep = Report::new();
        let mut r = Rng::derive(ctx.seed, "c17.midi", sh as u64);
        for j in 0..(n_midi + shards - 1) / shards {
            let mut h = midi::gen_bytes(&mut r, if small { 120 } else { 600 });
            h.channel_arg = r.below(256) as u8;
            midi::run_and_record(&h, want, &mut rep, sh == 0 && j < 1);
            if j % 4 == 0 {
                // note floods: the 32-entry held-note buffer filled and overrun, long melodies over held keys
                let h = match j % 12 {
                    0 => midi::gen_full_buffer(&mut r, true),
                    4 => midi::gen_drone_melody(&mut r, if small { 30 } else { 300 }, true),
                    _ => midi::gen_notes_x(&mut r, if small { 60 } else { 300 }, 0.2, false, true),
                };
                midi::run_and_record(&h, want, &mut rep, false);
                rep.count("c17.midi.note_flood_histories", 1);
            }
        }
        rep
    });
    stage("c17.midi.arbitrary_bytes", r, &mut rep, t0);
    let t0 = std::time::Instant::now();
    stage("c17.midi.repeat_storms", midi::repeat_storms(ctx, want), &mut rep, t0);
    // quantizer, glide, ribbon generators
    let t0 = std::time::Instant::now();
    stage("c17.quantizer.random", quant::random(ctx, want), &mut rep, t0);
    // holds at the largest finite inputs: the filter state may overflow there (a C13 matter); whatever it does,
    // no later call with finite arguments may panic
    let t0 = std::time::Instant::now();
    let hs = glide::largest_finite_histories(small);
    let r = par_shards(ctx, hs.len(), |j| {
        let mut rep = Report::new();
        glide::run_and_record(&hs[j], want, &mut rep, false);
        rep.count("c17.glide.largest_finite_input_histories", 1);
        rep
    });
    stage("c17.glide.largest_finite_inputs", r, &mut rep, t0);
    let t0 = std::time::Instant::now();
    let n_gl = ctx.budget(6, 2_000, 80_000) as usize;
    let r = par_shards(ctx, shards, |sh| {
        let mut rep = Report::new();
        let mut r = Rng::derive(ctx.seed, "c17.glide", sh as u64);
        for j in 0..(n_gl + shards - 1) / shards {
            let mut h = glide::gen_mixed(&mut r, if small { 100.0 } else { 2_000.0 }, if small { 6 } else { 25 });
            // the documented sample-rate range of C17 is wider than that of C13/C14
            if j % 3 == 0 {
                h.fs = fs_any(&mut r);
            }
            glide::run_and_record(&h, want, &mut rep, sh == 0 && j < 1);
        }
        rep
    });
    stage("c17.glide.mixed", r, &mut rep, t0);
    let t0 = std::time::Instant::now();
    let n_rb = ctx.budget(4, 600, 20_000) as usize;
    // the standard rates, and rates just below a step of the capacity helper (a non-integer rate next to such a
    // step must still be accepted with the buffer the helper gives for its integer part)
    let rates: Vec<u32> = if small { vec![100, 1000, 999] } else { ribbon::RATES.iter().copied().chain([133, 199, 333, 666, 999, 1499, 1999, 2999, 9999, 10_999, 19_999, 47_999]).collect() };
    let r = par_shards(ctx, shards, |sh| {
        let mut rep = Report::new();
        let mut r = Rng::derive(ctx.seed, "c17.ribbon", sh as u64);
        for j in 0..(n_rb + shards - 1) / shards {
            let rs: &[u32] = if j % 5 == 0 || small { &rates } else { &rates[..rates.len().min(6)] };
            let mut h = ribbon::gen_history(&mut r, rs, j % 2 == 0, if small { 3 } else { 8 });
            // samples anywhere in [0,1], including exactly on the boundary: class is irrelevant for C17
            h.ops.push(ribbon::Op::Rand(r.next_u64(), if small { 30 } else { 400 }, 0.0, 1.0));
            h.ops.push(ribbon::Op::Poll(1.0, 2));
            h.ops.push(ribbon::Op::Poll(0.0, 2));
            ribbon::run_and_record(&h, want, &mut rep, sh == 0 && j < 1);
        }
        rep
    });
    stage("c17.ribbon.histories", r, &mut rep, t0);
    if ctx.tier == Tier::Thorough {
        // an unbroken contact of 2^32 + 5 samples on the smallest buffer (a narrow sample counter would overflow)
        let t0 = std::time::Instant::now();
        let mut r = Report::new();
        let cfg = ribbon::Cfg { rate: 100, softpot: 20e3, dropper: 820.0, pullup: 1e6, frac: 0.0, cap: 0 };
        let bb = cfg.boundary() as f32;
        let h = ribbon::History { cfg, strict: false, ops: vec![ribbon::Op::Poll(0.6 * bb, (1u64 << 32) + 5), ribbon::Op::Poll(1.0, 2), ribbon::Op::Poll(0.2 * bb, 20)] };
        ribbon::run_and_record(&h, want, &mut r, false);
        r.count("c17.ribbon.contact_of_2pow32_samples", 1);
        stage("c17.ribbon.extremely_long_contact", r, &mut rep, t0);
    }
    let t0 = std::time::Instant::now();
    stage("c17.argument_fuzzer", arg_fuzz(ctx), &mut rep, t0);
    if !small {
        for k in ["adsr", "lfo", "glide", "quantizer"] {
            rep.floor(&format!("c17.arg_cases.{}", k), 1000);
        }
        rep.floor("c17.adsr.envelopes_run_to_sustain_and_rest", 1000);
        rep.floor("midi.bytes", 1_000_000);
        rep.floor("c17.midi.note_flood_histories", 500);
        rep.floor("adsr.completed_phase_Tfs.lt1", 50);
        rep.floor("ribbon.presses", 200);
        rep.floor("glide.holds", 1000);
        rep.floor("quant.histories", 1000);
        rep.floor("lfo.histories", 1000);
    }
    rep
}

pub fn replay(t: &Text, rep: &mut Report) -> Result<Option<Violation>, String> {
    match t.get("module")? {
        "c17-args" => {
            let c = ArgCase::parse(t)?;
            match c.run() {
                Ok(n) => {
                    rep.evaluations += n;
                    Ok(None)
                }
                Err(p) => Ok(Some(Violation { clause: "panic".into(), signature: format!("C17:panic:{}", p), message: format!("call sequence panicked: {}", p), replay: t.to_text() })),
            }
        }
        "adsr" => adsr::replay(t, "C17", rep),
        "lfo" => lfo::replay(t, "C17", rep),
        "midi" => midi::replay(t, "C17", rep),
        "quantizer" => quant::replay(t, "C17", rep),
        "glide" => glide::replay(t, "C17", rep),
        "ribbon" | "ribbon-probe" => ribbon::replay(t, "C17", rep),
        m => Err(format!("unknown replay module {}", m)),
    }
}
