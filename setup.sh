#!/bin/sh
# setup_cmd: build the monitored harness offline from files on disk (rebuilt incrementally by every check)
set -e
cd "$(dirname "$0")"
export CARGO_NET_OFFLINE=true
export CARGO_TARGET_DIR=/verif/.target
cargo build --offline --profile verif --manifest-path harness/Cargo.toml --bin run
echo "setup ok"
