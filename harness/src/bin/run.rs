//! `run <property> [--tier quick|thorough|small] [--seed N] [--threads N] [--scale X]
//!       [--out result.json] [--replay-dir dir] [--replay file]`
//!
//! Exit status: 0 = ran (the verdict is in the result file), 3 = usage / replay parse error.

use std::time::Instant;
use synth_verif::report::{install_panic_hook, Ctx, Report, Tier};

fn main() {
    let args: Vec<String> = std::env::args().collect();
    if args.len() < 2 {
        eprintln!("usage: run <property> [--tier T] [--seed N] [--out F] [--replay F]");
        std::process::exit(3);
    }
    let prop = args[1].clone();
    let mut tier = Tier::Quick;
    let mut seed: u64 = 1;
    let mut threads: usize = std::thread::available_parallelism().map(|n| n.get()).unwrap_or(4).min(16);
    let mut scale = 1.0f64;
    let mut out: Option<String> = None;
    let mut replay: Option<String> = None;
    let mut replay_dir = format!("/verif/replays/{}", prop);
    let mut i = 2;
    while i < args.len() {
        let v = args.get(i + 1).cloned().unwrap_or_default();
        match args[i].as_str() {
            "--tier" => {
                tier = match v.as_str() {
                    "quick" => Tier::Quick,
                    "thorough" => Tier::Thorough,
                    "small" => Tier::Small,
                    _ => {
                        eprintln!("bad tier");
                        std::process::exit(3)
                    }
                }
            }
            "--seed" => seed = v.parse().unwrap_or(1),
            "--threads" => threads = v.parse().unwrap_or(1),
            "--scale" => scale = v.parse().unwrap_or(1.0),
            "--out" => out = Some(v),
            "--replay" => replay = Some(v),
            "--replay-dir" => replay_dir = v,
            x => {
                eprintln!("unknown argument {}", x);
                std::process::exit(3)
            }
        }
        i += 2;
    }
    if tier == Tier::Small {
        threads = 1;
    }
    install_panic_hook();
    let ctx = Ctx { tier, seed, threads, scale };
    let t0 = Instant::now();
    let rep = if let Some(file) = &replay {
        let text = match std::fs::read_to_string(file) {
            Ok(t) => t,
            Err(e) => {
                eprintln!("cannot read {}: {}", file, e);
                std::process::exit(3)
            }
        };
        let mut rep = Report::new();
        match synth_verif::replay_property(&prop, &text, &mut rep) {
            Ok(Some(v)) => rep.violate(v),
            Ok(None) => {}
            Err(e) => {
                eprintln!("replay error: {}", e);
                std::process::exit(3)
            }
        }
        rep.notes.push(format!("replay of {}", file));
        rep
    } else {
        match synth_verif::run_property(&ctx, &prop) {
            Ok(r) => r,
            Err(e) => {
                eprintln!("{}", e);
                std::process::exit(3)
            }
        }
    };
    let wall = t0.elapsed().as_secs_f64();
    // write replay files
    let mut files = Vec::new();
    if !rep.violations.is_empty() {
        let _ = std::fs::create_dir_all(&replay_dir);
    }
    for (n, v) in rep.violations.iter().enumerate() {
        let h = synth_verif::rng::fnv(&v.signature);
        let name = format!("{}/{}-{:016x}-{}.txt", replay_dir, prop, h, n);
        let body = format!("# {}\n# signature: {}\n# {}\n{}", prop, v.signature, v.message.replace('\n', " "), v.replay);
        if replay.is_none() {
            if let Err(e) = std::fs::write(&name, body) {
                eprintln!("cannot write replay {}: {}", name, e);
            }
            files.push(name);
        } else {
            files.push(replay.clone().unwrap());
        }
    }
    let j = rep.to_json(&prop, &ctx, wall, &files).to_string();
    match out {
        Some(f) => std::fs::write(&f, j).expect("write result"),
        None => println!("{}", j),
    }
}
