//! Quantizer: recorded histories of allow / forbid / convert with a shadow scale, and the monitors of
//!   C07  never a forbidden note; the scale is never empty
//!   C08  history-free nearest-note rule (oracle in f64 microvolts), monotone in the input
//!   C09  hysteresis window model; outside the window the result equals a fresh real quantizer's
//!   C19  result record consistency

use crate::replay::{f, pf, pu, Text};
use crate::report::{fmt_f32, guard, par_shards, ulp32, Ctx, Report, Tier, Violation};
use crate::rng::Rng;
use synth_utils::quantizer::{Conversion, Note, Quantizer};

#[derive(Clone, Debug, PartialEq)]
pub enum Op {
    Allow(Vec<u8>),
    Forbid(Vec<u8>),
    Convert(f32),
    /// n edit calls in a row (run-length form): kind 0 = allow([note]) / forbid([note]) alternating, the last call
    /// being a forbid; kind 1 = forbid(all twelve notes, `note` last) n times
    EditStorm(u8, u8, u64),
}

#[derive(Clone, Debug)]
pub struct History {
    pub ops: Vec<Op>,
}

impl History {
    pub fn to_text(&self, property: &str, upto_op: usize) -> String {
        let mut t = Text::new();
        t.set("property", property).set("module", "quantizer");
        for (i, op) in self.ops.iter().enumerate() {
            if i > upto_op {
                break;
            }
            let list = |v: &Vec<u8>| v.iter().map(|n| n.to_string()).collect::<Vec<_>>().join(" ");
            t.ops.push(match op {
                Op::Allow(v) => format!("allow {}", list(v)),
                Op::Forbid(v) => format!("forbid {}", list(v)),
                Op::Convert(x) => format!("convert {}  # {:e} V", f(*x), x),
                Op::EditStorm(k, n, c) => format!("edit_storm {} {} {}", k, n, c),
            });
        }
        t.to_text()
    }
    pub fn parse(t: &Text) -> Result<Self, String> {
        let mut ops = Vec::new();
        for l in &t.ops {
            let mut it = l.split_whitespace();
            match it.next().unwrap_or("") {
                "allow" => ops.push(Op::Allow(it.map(|x| pu(x).map(|v| v as u8)).collect::<Result<_, _>>()?)),
                "forbid" => ops.push(Op::Forbid(it.map(|x| pu(x).map(|v| v as u8)).collect::<Result<_, _>>()?)),
                "convert" => ops.push(Op::Convert(pf(it.next().ok_or("arg")?)?)),
                "edit_storm" => {
                    let k = pu(it.next().ok_or("arg")?)? as u8;
                    let n = pu(it.next().ok_or("arg")?)? as u8;
                    ops.push(Op::EditStorm(k, n, pu(it.next().ok_or("arg")?)?))
                }
                x => return Err(format!("unknown quantizer op '{}'", x)),
            }
        }
        Ok(History { ops })
    }
    pub fn brief(&self) -> String {
        let txt: Vec<String> = self.ops.iter().take(16).map(|o| format!("{:?}", o)).collect();
        format!("quantizer ops=[{}{}]", txt.join(", "), if self.ops.len() > 16 { ", ..." } else { "" })
    }
}

pub const SEMI: f64 = 1.0 / 12.0;
pub const HYST: f64 = SEMI * 0.1;
pub const UV10: f64 = 10e-6;

fn notes(v: &[u8]) -> Vec<Note> {
    v.iter().map(|n| Note::from(*n)).collect()
}

/// a fresh real quantizer configured with the scale `mask` (bit n = pitch class n allowed)
pub fn fresh_with(mask: u16) -> Quantizer {
    let mut q = Quantizer::new();
    let forbid: Vec<Note> = (0..12u8).filter(|n| mask >> n & 1 == 0).map(Note::from).collect();
    if !forbid.is_empty() {
        q.forbid(&forbid);
    }
    q
}

/// C08 oracle: may a history-free quantizer with scale `mask` report `note` for input `v` (volts, any value)?
/// Returns Err(description) if not.
pub fn nearest_ok(mask: u16, v: f32, note: u8) -> Result<(), String> {
    let vc: f64 = if v.is_nan() {
        // NaN is "clamped" by max/min to a bound; either bound's answer is acceptable
        return nearest_ok(mask, 0.0, note).or_else(|_| nearest_ok(mask, 10.0, note));
    } else {
        (v as f64).clamp(0.0, 10.0)
    };
    if mask >> (note % 12) & 1 == 0 {
        return Err(format!("note {} (pitch class {}) is not in the scale {:#05x}", note, note % 12, mask));
    }
    if note > 131 {
        return Err(format!("note {} is beyond the 0..10 V range", note));
    }
    let d = vc - note as f64 / 12.0;
    // bucket winner: at or less than one semitone below v
    if d >= -UV10 && d <= SEMI + UV10 {
        return Ok(());
    }
    let mut best = f64::INFINITY;
    let mut strict_winner: Option<u8> = None;
    for c in 0..=131u8 {
        if mask >> (c % 12) & 1 == 1 {
            let dc = vc - c as f64 / 12.0;
            if dc >= UV10 && dc <= SEMI - UV10 {
                strict_winner = Some(c);
            }
            if dc.abs() < best {
                best = dc.abs();
            }
        }
    }
    if let Some(w) = strict_winner {
        return Err(format!("allowed note {} lies within one semitone below the input {:.6} V and must win, reported {}", w, vc, note));
    }
    if d.abs() <= best + UV10 {
        Ok(())
    } else {
        Err(format!("reported note {} is {:.6} V from the input {:.6} V but an allowed note is only {:.6} V away", note, d.abs(), vc, best))
    }
}

fn conv(q: &mut Quantizer, v: f32) -> Conversion {
    q.convert(v)
}

/// Execute one history with the C07 / C09 / C19 monitors attached.
pub fn execute(h: &History, want: &str, rep: &mut Report) -> Option<Violation> {
    let mk = |prop: &str, clause: &str, msg: String, i: usize| -> Violation {
        Violation { clause: clause.to_string(), signature: format!("{}:{}", prop, clause), message: format!("{} [op#{} {:?}]", msg, i, h.ops[i.min(h.ops.len().saturating_sub(1))]), replay: h.to_text(prop, i) }
    };
    let mut n_eval = 0u64;
    macro_rules! call {
        ($e:expr, $i:expr) => {
            match guard(|| $e) {
                Ok(v) => v,
                Err(p) => {
                    rep.evaluations += n_eval;
                    let mut v = mk(want, "panic", format!("panicked: {}", p), $i);
                    v.signature = format!("{}:panic:{}", want, p);
                    return Some(v);
                }
            }
        };
    }
    macro_rules! fail {
        ($prop:expr, $clause:expr, $msg:expr, $i:expr) => {
            if want == $prop || want == "ALL" {
                rep.evaluations += n_eval;
                return Some(mk($prop, $clause, $msg, $i));
            }
        };
    }
    let mut q = call!(Quantizer::new(), 0);
    let mut mask: u16 = 0x0FFF;
    let mut prev: Option<u8> = None;
    let mut c_path = [0u64; 4];
    let mut c_edit = [0u64; 3];
    let mut max_recon: f64 = 0.0;
    let mut min_frac_chrom: f64 = 0.0;
    for (i, op) in h.ops.iter().enumerate() {
        match op {
            Op::Allow(ns) | Op::Forbid(ns) => {
                let allow = matches!(op, Op::Allow(_));
                let nn = notes(ns);
                if allow {
                    call!(q.allow(&nn), i);
                    for n in ns {
                        mask |= 1 << (*n).min(11);
                    }
                    c_edit[0] += 1;
                } else {
                    call!(q.forbid(&nn), i);
                    for n in ns {
                        mask &= !(1 << (*n).min(11));
                    }
                    if mask == 0 {
                        // would empty the scale: the last note of the argument stays allowed
                        mask |= 1 << (*ns.last().unwrap()).min(11);
                        c_edit[2] += 1;
                    }
                    c_edit[1] += 1;
                }
                n_eval += 1;
                let mut got: u16 = 0;
                for n in 0..12u8 {
                    if call!(q.is_allowed(Note::from(n)), i) {
                        got |= 1 << n;
                    }
                }
                if got == 0 {
                    fail!("C07", "scale-empty", format!("after {:?} no pitch class is allowed", op), i);
                }
                if got != mask {
                    fail!("C07", "scale-edit", format!("after {:?} is_allowed() reports the scale {:#05x}, expected {:#05x}", op, got, mask), i);
                    // follow the implementation so that later checks stay meaningful for other properties
                    mask = if got != 0 { got } else { mask };
                }
            }
            Op::EditStorm(kind, note, count) => {
                let nt = (*note).min(11);
                let all: Vec<Note> = {
                    let mut v: Vec<u8> = (0..12u8).filter(|x| *x != nt).collect();
                    v.push(nt);
                    notes(&v)
                };
                let one = [Note::from(nt)];
                let (kind, count) = (*kind, *count);
                call!(
                    {
                        if kind == 0 {
                            // ... allow, forbid, allow, forbid: the last call is a forbid
                            let mut allow_next = count % 2 == 0;
                            for _ in 0..count {
                                if allow_next {
                                    q.allow(&one);
                                } else {
                                    q.forbid(&one);
                                }
                                allow_next = !allow_next;
                            }
                        } else {
                            for _ in 0..count {
                                q.forbid(&all);
                            }
                        }
                    },
                    i
                );
                n_eval += count;
                c_edit[1] += count;
                if count > 0 {
                    if kind == 0 {
                        // the shadow follows the last two calls (the sequence is periodic with period two)
                        if count >= 2 {
                            mask |= 1 << nt;
                        }
                        mask &= !(1 << nt);
                        if mask == 0 {
                            mask |= 1 << nt;
                        }
                    } else {
                        mask = 1 << nt;
                    }
                }
                let mut got: u16 = 0;
                for n in 0..12u8 {
                    if call!(q.is_allowed(Note::from(n)), i) {
                        got |= 1 << n;
                    }
                }
                if got != mask {
                    fail!("C07", "scale-edit", format!("after {:?} is_allowed() reports the scale {:#05x}, expected {:#05x}", op, got, mask), i);
                    mask = if got != 0 { got } else { mask };
                }
                rep.count("quant.edit_storm_calls", count);
            }
            Op::Convert(v) => {
                let c = call!(conv(&mut q, *v), i);
                n_eval += 1;
                let note = c.note_num;
                let oct = (note / 12).min(11);
                // ---- C07 ----
                if mask >> (note % 12) & 1 == 0 {
                    fail!("C07", "forbidden-note", format!("convert({}) reported note {} (pitch class {}) which is forbidden in the scale {:#05x}; previous note {:?}", v, note, note % 12, mask, prev), i);
                }
                // ---- C08: the first conversion of an instance is history-free, however its scale was set up ----
                if prev.is_none() {
                    if let Err(why) = nearest_ok(mask, *v, note) {
                        fail!("C08", "nearest", format!("first conversion of this instance, convert({}) = note {}: {}", v, note, why), i);
                    }
                }
                // ---- C09: window model ----
                let v64 = *v as f64;
                let mut path = 1usize; // 0 kept, 1 outside window, 2 cached note forbidden, 3 no history
                let mut edge = false;
                let mut kept = false;
                match prev {
                    None => path = 3,
                    Some(p) => {
                        if mask >> (p % 12) & 1 == 0 {
                            path = 2;
                        } else {
                            let lo = p as f64 / 12.0 - HYST;
                            let hi = p as f64 / 12.0 + SEMI + HYST;
                            if (v64 - lo).abs() <= 2e-6 || (v64 - hi).abs() <= 2e-6 {
                                edge = true;
                            }
                            if v64 > lo && v64 < hi {
                                path = 0;
                                kept = true;
                            }
                        }
                    }
                }
                let fresh_note = call!(
                    {
                        let mut fq = fresh_with(mask);
                        fq.convert(*v).note_num
                    },
                    i
                );
                let expect = if kept { prev.unwrap() } else { fresh_note };
                if note != expect {
                    let alt_ok = edge && (note == fresh_note || Some(note) == prev);
                    if !alt_ok {
                        let why = if kept { format!("the input is inside the window of the previous note {} (still allowed), which must be kept", prev.unwrap()) } else { format!("the input is outside the window of the previous note {:?} (or that note is forbidden now), so the history-free result {} is required", prev, fresh_note) };
                        fail!("C09", if kept { "window-not-held" } else { "stale-history" }, format!("convert({}) reported note {}: {} (scale {:#05x})", v, note, why, mask), i);
                    }
                }
                c_path[path] += 1;
                rep.class(("conv", oct, path, note % 12, (mask.count_ones() as u8) / 3));
                // ---- C19 ----
                let st = c.stairstep as f64;
                let fr = c.fraction as f64;
                let want_st = note as f64 / 12.0;
                if !((st - want_st).abs() <= ulp32(want_st as f32)) {
                    fail!("C19", "stairstep", format!("note {} but stairstep {} (note/12 = {:.9})", note, fmt_f32(c.stairstep), want_st), i);
                }
                if !v.is_nan() {
                    let clamped = v64.clamp(0.0, 10.0);
                    let tol = 2.0 * ulp32((v.abs().min(10.0)).max(c.stairstep.abs()).max(c.fraction.abs()));
                    let e_in = (st + fr - v64).abs();
                    let e_cl = (st + fr - clamped).abs();
                    let e = if (0.0..=10.0).contains(&v64) { e_in } else { e_in.min(e_cl) };
                    if !(e <= tol) {
                        fail!("C19", "reconstruction", format!("convert({}): stairstep {} + fraction {} = {:.9}, off by {:e} (> 2 ulp = {:e})", v, c.stairstep, c.fraction, st + fr, e, tol), i);
                    }
                    if e.is_finite() && tol > 0.0 && e / tol > max_recon {
                        max_recon = e / tol;
                    }
                    // "the hysteresis window kept the previous note" can only be told from outside when the input as
                    // given and its clamped value (C19 lets an out-of-range input stand for either) both lie inside the
                    // window; otherwise the same note may just as well be the history-free result of the clamped value
                    let clamped_in_window = prev.map(|p| {
                        let c = v64.clamp(0.0, 10.0);
                        c > p as f64 / 12.0 - HYST && c < p as f64 / 12.0 + SEMI + HYST
                    }).unwrap_or(false);
                    // (... unless it differs from the history-free result: then only the window can have kept it)
                    let kept_here = note == prev.unwrap_or(255) && kept && (clamped_in_window || note != fresh_note);
                    if kept_here && !(fr >= -HYST - 2e-6 && fr <= SEMI + HYST + 2e-6) {
                        fail!("C19", "fraction-window", format!("convert({}) kept note {} by hysteresis but the fraction {} is outside [-0.1, 1.1] semitone", v, note, c.fraction), i);
                    }
                    if prev.is_none() && mask == 0x0FFF && (0.0..=10.0).contains(&v64) {
                        if !(fr >= -UV10 && fr < SEMI + UV10) {
                            fail!("C19", "fraction-chromatic", format!("chromatic scale, no history: convert({}) gives fraction {} outside [0, 1) semitone", v, c.fraction), i);
                        }
                        if fr < min_frac_chrom {
                            min_frac_chrom = fr;
                        }
                    }
                }
                prev = Some(note);
            }
        }
    }
    rep.evaluations += n_eval;
    rep.count("quant.conv.kept_by_window", c_path[0]);
    rep.count("quant.conv.outside_window", c_path[1]);
    rep.count("quant.conv.cached_note_forbidden", c_path[2]);
    rep.count("quant.conv.no_history", c_path[3]);
    rep.count("quant.edit.allow", c_edit[0]);
    rep.count("quant.edit.forbid", c_edit[1]);
    rep.count("quant.edit.forbid_would_empty", c_edit[2]);
    rep.count("quant.histories", 1);
    rep.max("quant.max_reconstruction_error_over_2ulp", max_recon);
    rep.max("quant.most_negative_chromatic_fraction_uV", -min_frac_chrom * 1e6);
    None
}

pub fn shrink(h: &History, want: &str, v: Violation) -> Violation {
    if h.ops.len() > 5000 || h.ops.iter().any(|o| matches!(o, Op::EditStorm(_, _, n) if *n > 1_000_000)) {
        return v;
    }
    let sig = v.signature.clone();
    let fails = |ops: &[Op]| {
        let hh = History { ops: ops.to_vec() };
        let mut scratch = Report::new();
        matches!(execute(&hh, want, &mut scratch), Some(x) if x.signature == sig)
    };
    let ops = crate::report::shrink_ops(&h.ops, 2000, fails);
    let hh = History { ops };
    let mut scratch = Report::new();
    match execute(&hh, want, &mut scratch) {
        Some(x) if x.signature == sig => x,
        _ => v,
    }
}

pub fn run_and_record(h: &History, want: &str, rep: &mut Report, sample: bool) {
    if sample {
        rep.sample(h.brief());
    }
    if let Some(v) = execute(h, want, rep) {
        rep.violate(shrink(h, want, v));
    }
}

// ------------------------------------------------------------------------------------------------
// workloads for the history monitors

fn mask_to_ops(mask: u16) -> Vec<Op> {
    let forbid: Vec<u8> = (0..12u8).filter(|n| mask >> n & 1 == 0).collect();
    if forbid.is_empty() {
        vec![]
    } else {
        vec![Op::Forbid(forbid)]
    }
}

fn rand_mask(r: &mut Rng) -> u16 {
    match r.below(6) {
        0 => 0x0FFF,
        1 => 1 << r.below(12),
        2 => (1 << r.below(12)) | (1 << r.below(12)),
        3 => *r.pick(&[0b1010_1011_0101u16, 0b0101_1010_1101, 0b0010_1001_0101, 0b1001_0010_0100]), // major, minor, pentatonic, dim
        _ => (1 + r.below(4095)) as u16,
    }
}

fn rand_voltage(r: &mut Rng) -> f32 {
    match r.below(16) {
        0 => *r.pick(&[0.0f32, 10.0, -0.0, 10.000_001, -1e-6, 5.0, 1.0, 9.999_999, f32::NAN, f32::INFINITY, f32::NEG_INFINITY, 1e30, -1e30, 1e-40, 0.083_333_336, 9.916_667, f32::MIN, f32::MAX]),
        1 => r.uniform(-0.5, 0.1) as f32,
        2 => r.uniform(9.9, 10.6) as f32,
        3 => r.any_f32(),
        4 | 5 => {
            // near a semitone boundary or a window edge
            let k = r.below(121) as f64;
            let off = *r.pick(&[0.0, HYST, -HYST, SEMI + HYST, SEMI, SEMI / 2.0]);
            (k / 12.0 + off + r.uniform(-3e-6, 3e-6)) as f32
        }
        _ => r.uniform(0.0, 10.0) as f32,
    }
}

/// C07 directed: convert - forbid that very pitch class - convert the same input, in every octave
pub fn directed_forbid_cached(ctx: &Ctx, want: &str) -> Report {
    let small = ctx.tier == Tier::Small;
    let octs: Vec<u8> = if small { vec![0, 3, 10] } else { (0..=10).collect() };
    par_shards(ctx, octs.len(), |oi| {
        let mut rep = Report::new();
        let oct = octs[oi];
        let mut r = Rng::derive(ctx.seed, "quant.c07.directed", oct as u64);
        let n_scales = if small { 2 } else { ctx.budget(2, 60, 1000) };
        for pc in 0..12u8 {
            if oct == 10 && pc > 0 {
                break;
            }
            for s in 0..=n_scales {
                let mask: u16 = if s == 0 { 0x0FFF } else { (rand_mask(&mut r) | (1 << pc)) & 0x0FFF };
                if mask == (1 << pc) {
                    continue;
                }
                let mut ops = mask_to_ops(mask);
                let base = (oct as f64 * 12.0 + pc as f64) / 12.0;
                for pos in [0.02, 0.3, 0.5, 0.8, 0.98, -0.05, 1.05] {
                    let v = (base + pos * SEMI).clamp(0.0, 10.0) as f32;
                    ops.push(Op::Convert(v));
                    ops.push(Op::Forbid(vec![pc]));
                    ops.push(Op::Convert(v));
                    ops.push(Op::Allow(vec![pc]));
                    ops.push(Op::Convert(v));
                    // an edit that leaves the cached note allowed
                    let other = (pc + 1 + r.below(11) as u8) % 12;
                    ops.push(Op::Forbid(vec![other]));
                    ops.push(Op::Convert(v));
                    if mask >> other & 1 == 1 {
                        ops.push(Op::Allow(vec![other]));
                    }
                }
                let h = History { ops };
                run_and_record(&h, want, &mut rep, oct == 1 && pc == 1 && s == 0);
                rep.count(&format!("quant.c07.cached_note_forbidden_same_input.octave{}", oct), 7);
            }
        }
        rep
    })
}

/// random edit / convert histories (C07, C09, C19)
pub fn gen_random(r: &mut Rng, n: usize) -> History {
    let mut ops = mask_to_ops(rand_mask(r));
    let mut v = r.uniform(0.0, 10.0);
    let mut recent: Vec<f32> = Vec::new();
    for _ in 0..n {
        if let Some(Op::Convert(x)) = ops.last() {
            recent.push(*x);
            if recent.len() > 6 {
                recent.remove(0);
            }
        }
        let k = r.below(24);
        match k {
            20 => {
                // exactly the same input as one of the last few conversions
                if !recent.is_empty() {
                    let x = *r.pick(&recent);
                    // ... or a few ulps away from it (the same microvolt, different bits)
                    let x = if r.chance(0.4) && x.is_finite() && x != 0.0 { f32::from_bits((x.to_bits() as i64 + r.below(7) as i64 - 3).max(1) as u32) } else { x };
                    ops.push(Op::Convert(x));
                }
            }
            21 => {
                // forbid the pitch class nearest below the current input and allow it again at once (or after one conversion)
                let pc = ((v.max(0.0) * 12.0).floor() as u64 % 12) as u8;
                ops.push(Op::Forbid(vec![pc]));
                if r.chance(0.3) {
                    ops.push(Op::Convert((v + r.uniform(-0.004, 0.004)) as f32));
                }
                ops.push(Op::Allow(vec![pc]));
                ops.push(Op::Convert((v + r.uniform(-0.008, 0.008)) as f32));
            }
            22 => {
                // a storm of edits between two conversions of the same input (counts around powers of two)
                let total = *r.pick(&[7usize, 8, 255, 256, 257, 511, 512]);
                let pc = ((v.max(0.0) * 12.0).floor() as u64 % 12) as u8;
                let other = (pc + 1 + r.below(11) as u8) % 12;
                ops.push(Op::Convert(v as f32));
                for k in 0..total - 1 {
                    ops.push(if k % 2 == 0 { Op::Allow(vec![other]) } else { Op::Forbid(vec![other]) });
                }
                ops.push(Op::Forbid(vec![pc]));
                ops.push(Op::Convert(v as f32));
                ops.push(Op::Allow(vec![pc]));
            }
            23 => {
                // top of the range, where the octave above does not exist
                ops.push(Op::Convert(*r.pick(&[10.0f32, 9.999_999, 9.9999, 9.9917, 9.95, 10.0001])));
            }
            // (note arguments stay in 0..=11 here: how larger values are clamped is C20's subject, not C07/C09/C19's)
            0 | 1 => {
                let list: Vec<u8> = if r.chance(0.2) {
                    // a long argument (13..50 entries): a few notes repeated many times, one more named only late
                    let pool: Vec<u8> = (0..1 + r.below(3)).map(|_| r.below(12) as u8).collect();
                    let mut l: Vec<u8> = (0..13 + r.below(38)).map(|_| *r.pick(&pool)).collect();
                    let late = 12 + r.usize_below(l.len() - 12);
                    l[late] = r.below(12) as u8;
                    l
                } else {
                    (0..r.below(5)).map(|_| r.below(12) as u8).collect()
                };
                ops.push(if k == 0 { Op::Forbid(list) } else { Op::Allow(list) });
            }
            2 => {
                // forbid everything in a random order (the last one survives)
                let mut all: Vec<u8> = (0..12).collect();
                for i in (1..12).rev() {
                    all.swap(i, r.usize_below(i + 1));
                }
                if r.chance(0.3) {
                    all.push(r.below(12) as u8);
                }
                ops.push(Op::Forbid(all));
            }
            3 => ops.push(Op::Allow(vec![r.below(12) as u8])),
            4 => ops.push(Op::Forbid(vec![r.below(12) as u8, r.below(12) as u8])),
            5 => ops.push(Op::Convert(rand_voltage(r))),
            6 => {
                v = r.uniform(0.0, 10.0);
                ops.push(Op::Convert(v as f32));
            }
            _ => {
                // small move: stays in / leaves the window
                v += r.uniform(-1.0, 1.0) * *r.pick(&[0.001, 0.004, 0.01, 0.03, 0.09]);
                v = v.clamp(-0.05, 10.05);
                ops.push(Op::Convert(v as f32));
            }
        }
    }
    History { ops }
}

/// slow ramps, boundary noise, jumps: per octave, per scale (C09 + derived checks)
pub fn sequences(ctx: &Ctx, want: &str) -> Report {
    let small = ctx.tier == Tier::Small;
    let n_scales = ctx.budget(3, 200, 4095) as usize;
    let shards = if small { 1 } else { 64 };
    par_shards(ctx, shards, |sh| {
        let mut rep = Report::new();
        let mut r = Rng::derive(ctx.seed, "quant.sequences", sh as u64);
        let mut k = sh;
        while k < n_scales {
            let mask: u16 = if n_scales >= 4095 { (k + 1) as u16 } else if k == 0 { 0x0FFF } else { rand_mask(&mut r) };
            k += shards;
            // (1) slow ramp up and down through a random span: notes must follow the direction
            let span = if small { 0.4 } else { 2.0 };
            let a = r.uniform(0.0, 10.0 - span);
            let step = *r.pick(&[0.0007, 0.0021, 0.0043]);
            let mut ops = mask_to_ops(mask);
            let n = (span / step) as usize;
            for j in 0..=n {
                ops.push(Op::Convert((a + j as f64 * step) as f32));
            }
            let up_end = ops.len();
            for j in 0..=n {
                ops.push(Op::Convert((a + span - j as f64 * step) as f32));
            }
            let h = History { ops };
            run_and_record(&h, want, &mut rep, sh == 0 && k == shards);
            if want == "C09" || want == "ALL" {
                // derived: monotone input => monotone notes (fixed scale)
                if let Some(v) = derived_monotone(&h, up_end, mask) {
                    rep.violate(v);
                }
                rep.count("quant.c09.monotone_ramps", 2);
            }
            // (2) noise below the hysteresis width around every chromatic boundary of one octave
            if mask == 0x0FFF || k % 16 == 0 {
                let oct = r.below(10) as f64;
                for b in 1..12 {
                    let centre = oct + b as f64 / 12.0;
                    let mut ops = mask_to_ops(0x0FFF);
                    for _ in 0..(if small { 20 } else { 80 }) {
                        ops.push(Op::Convert((centre + r.uniform(-0.95, 0.95) * HYST) as f32));
                    }
                    let h = History { ops };
                    run_and_record(&h, want, &mut rep, false);
                    if want == "C09" || want == "ALL" {
                        if let Some(v) = derived_noise(&h) {
                            rep.violate(v);
                        }
                        rep.count("quant.c09.noise_runs", 1);
                    }
                }
            }
            // (3) jumps and scale edits between conversions
            let h = gen_random(&mut r, if small { 40 } else { 300 });
            run_and_record(&h, want, &mut rep, false);
        }
        rep
    })
}

fn derived_monotone(h: &History, up_end: usize, mask: u16) -> Option<Violation> {
    let mut q = fresh_with(mask);
    let mut last: Option<(u8, f32)> = None;
    for (i, op) in h.ops.iter().enumerate() {
        if i == up_end {
            q = fresh_with(mask);
            last = None;
        }
        if let Op::Convert(v) = op {
            let n = q.convert(*v).note_num;
            if let Some((ln, lv)) = last {
                let bad = if i < up_end { n < ln } else { n > ln };
                if bad {
                    return Some(Violation {
                        clause: "monotone-sequence".into(),
                        signature: "C09:monotone-sequence".into(),
                        message: format!("fixed scale {:#05x}: input moved {} -> {} but the note moved {} -> {} against it", mask, lv, v, ln, n),
                        replay: h.to_text("C09", i),
                    });
                }
            }
            last = Some((n, *v));
        }
    }
    None
}

fn derived_noise(h: &History) -> Option<Violation> {
    let mut q = Quantizer::new();
    let mut last: Option<u8> = None;
    let mut changes = 0;
    for (i, op) in h.ops.iter().enumerate() {
        if let Op::Convert(v) = op {
            let n = q.convert(*v).note_num;
            if let Some(l) = last {
                if l != n {
                    changes += 1;
                    if changes > 1 {
                        return Some(Violation {
                            clause: "noise-chatter".into(),
                            signature: "C09:noise-chatter".into(),
                            message: format!("noise smaller than the hysteresis width around a chromatic boundary changed the note {} times", changes),
                            replay: h.to_text("C09", i),
                        });
                    }
                }
            }
            last = Some(n);
        }
    }
    None
}

/// long-count histories: more than 2^16 conversions and edits on one instance
pub fn long_counts(ctx: &Ctx, want: &str) -> Report {
    if ctx.tier == Tier::Small {
        return Report::new();
    }
    par_shards(ctx, 3, |j| {
        let mut rep = Report::new();
        let mut r = Rng::derive(ctx.seed, "quant.long", j as u64);
        let mut ops = mask_to_ops(if j == 0 { 0x0FFF } else { rand_mask(&mut r) });
        let mut v = r.uniform(0.0, 10.0);
        match j {
            0 | 1 => {
                for k in 0..70_000u32 {
                    v = (v + r.uniform(-1.0, 1.0) * 0.02).clamp(0.0, 10.0);
                    ops.push(Op::Convert(v as f32));
                    if k % 1000 == 999 {
                        let pc = r.below(12) as u8;
                        ops.push(Op::Forbid(vec![pc]));
                        ops.push(Op::Convert(v as f32));
                        ops.push(Op::Allow(vec![pc]));
                    }
                }
            }
            _ => {
                // 2^16 +- 1 edits between two conversions of the same input, the last one forbidding the held note
                for total in [65_535usize, 65_536, 65_537] {
                    let pc = ((v.max(0.0) * 12.0).floor() as u64 % 12) as u8;
                    let other = (pc + 5) % 12;
                    ops.push(Op::Allow(vec![pc]));
                    ops.push(Op::Convert(v as f32));
                    for k in 0..total - 1 {
                        ops.push(if k % 2 == 0 { Op::Allow(vec![other]) } else { Op::Forbid(vec![other]) });
                    }
                    ops.push(Op::Forbid(vec![pc]));
                    ops.push(Op::Convert(v as f32));
                    ops.push(Op::Allow(vec![pc]));
                    v = r.uniform(0.0, 10.0);
                }
            }
        }
        let h = History { ops };
        run_and_record(&h, want, &mut rep, false);
        rep.count("quant.long_count_histories", 1);
        rep
    })
}

/// a held note forbidden, then a storm of further edit calls whose total count lands on a power of two, then the
/// same input again: 2^8 / 2^16 in the quick tier, 2^31 / 2^32 (a wrapped 32-bit edit counter) in the thorough tier
pub fn edit_storms(ctx: &Ctx, want: &str) -> Report {
    if ctx.tier == Tier::Small {
        return Report::new();
    }
    let mut totals: Vec<u64> = vec![256, 65_536, 1 << 20];
    if ctx.tier == Tier::Thorough {
        totals.extend([1u64 << 31, 1 << 32]);
    }
    // (total calls incl. the forbid of the held note, delta, kind)
    let mut jobs: Vec<(u64, i64, u8)> = Vec::new();
    for t in &totals {
        for d in [-1i64, 0, 1] {
            jobs.push((*t, d, 0));
        }
        jobs.push((*t, 0, 1));
        jobs.push((*t / 2, 0, 1));
    }
    par_shards(ctx, jobs.len(), |j| {
        let mut rep = Report::new();
        let (total, d, kind) = jobs[j];
        let mut r = Rng::derive(ctx.seed, "quant.storm", j as u64);
        let oct = r.below(10) as f64;
        let pc = r.below(12) as u8;
        let v = (oct + (pc as f64 + 0.4) / 12.0) as f32;
        let other = (pc + 1 + r.below(11) as u8) % 12;
        let ops = if kind == 0 {
            // forbid(held) is one call, the storm supplies the rest; the storm ends with forbid(other)
            vec![Op::Convert(v), Op::Forbid(vec![pc]), Op::EditStorm(0, other, (total as i64 - 1 + d) as u64), Op::Convert(v), Op::Allow(vec![pc, other]), Op::Convert(v)]
        } else {
            vec![Op::Convert(v), Op::EditStorm(1, other, total), Op::Convert(v), Op::Allow(vec![pc]), Op::Convert(v)]
        };
        let h = History { ops };
        run_and_record(&h, want, &mut rep, j == 0);
        rep.count("quant.edit_storm_histories", 1);
        rep
    })
}

/// the very first conversion of an instance, after edit calls that leave the scale chromatic or sparse, swept in
/// 0.5 mV steps over the bottom and the top of the range (a placeholder cached note must never act as history)
pub fn first_conversions(ctx: &Ctx, want: &str) -> Report {
    let small = ctx.tier == Tier::Small;
    let preludes: Vec<Vec<Op>> = vec![
        vec![],
        vec![Op::Allow(vec![0])],
        vec![Op::Allow(vec![])],
        vec![Op::Allow((0..12).collect())],
        vec![Op::Forbid(vec![])],
        vec![Op::Forbid(vec![0]), Op::Allow(vec![0])],
        vec![Op::Forbid(vec![5]), Op::Allow(vec![5, 0])],
        vec![Op::Forbid(vec![0])],
        vec![Op::Forbid(vec![0, 1]), Op::Allow(vec![1])],
        vec![Op::Forbid((0..12).collect()), Op::Allow(vec![0, 4, 7])],
        vec![Op::Forbid(vec![11]), Op::Allow(vec![11]), Op::Forbid(vec![0])],
        vec![Op::EditStorm(0, 3, 7), Op::Allow(vec![3])],
        // several edits that end on the chromatic scale again: a quantizer that has never converted has no history,
        // whatever its scale has been through
        vec![Op::Forbid(vec![0]), Op::Allow(vec![2]), Op::Allow(vec![0])],
        vec![Op::Forbid(vec![0]), Op::Allow(vec![]), Op::Allow(vec![0, 0])],
        vec![Op::Forbid(vec![0, 1, 2]), Op::Allow(vec![2]), Op::Allow(vec![1]), Op::Allow(vec![0])],
        vec![Op::Forbid(vec![1, 2, 3, 4, 5, 6, 7, 8, 9, 10, 11, 0]), Op::Allow((0..12).collect())],
        vec![Op::Forbid(vec![0, 2, 3, 4, 5, 6, 7, 8, 9, 10, 11, 1]), Op::Allow(vec![5]), Op::Allow((0..12).rev().collect())],
        vec![Op::Forbid(vec![0, 11]), Op::Allow(vec![11]), Op::Forbid(vec![5]), Op::Allow(vec![5]), Op::Allow(vec![0])],
        vec![Op::Forbid(vec![0]), Op::Forbid(vec![1]), Op::Allow(vec![1]), Op::Allow(vec![0])],
    ];
    // ... and seeded random edit histories that end on the chromatic scale
    let mut preludes = preludes;
    {
        let mut r = Rng::derive(ctx.seed, "quant.first_conversion_preludes", 0);
        for _ in 0..(if small { 2 } else { 24 }) {
            let mut p = Vec::new();
            for _ in 0..1 + r.below(5) {
                let list: Vec<u8> = (0..r.below(5)).map(|_| r.below(12) as u8).collect();
                p.push(if r.chance(0.6) { Op::Forbid(list) } else { Op::Allow(list) });
            }
            let mut all: Vec<u8> = (0..12).collect();
            if r.chance(0.5) {
                all.reverse();
            }
            if r.chance(0.5) {
                // one note at a time
                for n in all {
                    p.push(Op::Allow(vec![n]));
                }
            } else {
                p.push(Op::Allow(all));
            }
            preludes.push(p);
        }
    }
    par_shards(ctx, preludes.len(), |j| {
        let mut rep = Report::new();
        let pre = &preludes[j];
        let step = if small { 0.02 } else { 0.0005 };
        let mut spans: Vec<(f64, f64)> = vec![(-0.02, 2.2), (9.7, 10.12)];
        if small {
            spans.truncate(1);
        }
        for (lo, hi) in spans {
            let mut v = lo;
            while v <= hi {
                let mut ops = pre.clone();
                ops.push(Op::Convert(v as f32));
                ops.push(Op::Convert((v + 0.003) as f32));
                let h = History { ops };
                run_and_record(&h, want, &mut rep, false);
                rep.count("quant.first_conversion_histories", 1);
                v += step;
            }
        }
        rep
    })
}

/// exact ties and the top of the range: (a) a held note is forbidden and the same or a neighbouring input lies exactly
/// (to the microvolt, and +-1 uV) midway between the nearest allowed notes below and above; (b) with C forbidden the
/// notes 121..131 above 10 V are reached, held inside their window by inputs above 10 V, and released outside it
pub fn ties_and_top(ctx: &Ctx, want: &str) -> Report {
    let small = ctx.tier == Tier::Small;
    let n_scales = ctx.budget(2, 60, 600) as usize;
    let shards = if small { 1 } else { 16 };
    par_shards(ctx, shards, |sh| {
        let mut rep = Report::new();
        let mut r = Rng::derive(ctx.seed, "quant.ties", sh as u64);
        for _ in 0..(n_scales + shards - 1) / shards {
            // (a) ties
            let mask = loop {
                let m = rand_mask(&mut r);
                if m.count_ones() >= 3 {
                    break m;
                }
            };
            let members: Vec<u8> = (0..12u8).filter(|n| mask >> n & 1 == 1).collect();
            let pc = *r.pick(&members);
            let oct = r.below(10) as i64;
            let held = oct * 12 + pc as i64;
            // nearest allowed notes below and above once pc is forbidden
            let m2 = mask & !(1 << pc);
            let below = (0..held).rev().find(|n| m2 >> (n % 12) & 1 == 1);
            let above = (held + 1..=131).find(|n| m2 >> (n % 12) & 1 == 1);
            if let (Some(lo), Some(hi)) = (below, above) {
                let mid = (lo + hi) as f64 / 24.0;
                let mut ops = mask_to_ops(mask);
                for d in [0.0, 1e-6, -1e-6, 2e-6, -2e-6] {
                    ops.push(Op::Convert((held as f64 / 12.0 + 0.02) as f32));
                    ops.push(Op::Forbid(vec![pc]));
                    ops.push(Op::Convert((mid + d) as f32));
                    ops.push(Op::Convert((held as f64 / 12.0) as f32));
                    ops.push(Op::Allow(vec![pc]));
                }
                // the same tie on an instance whose cached note is one of the two tied notes
                for first in [lo, hi] {
                    ops.push(Op::Forbid(vec![pc]));
                    ops.push(Op::Convert((first as f64 / 12.0 + 0.01) as f32));
                    ops.push(Op::Convert(mid as f32));
                    ops.push(Op::Convert(((lo as f64) / 12.0 + (hi - lo) as f64 / 24.0) as f32));
                    ops.push(Op::Allow(vec![pc]));
                }
                run_and_record(&History { ops }, want, &mut rep, false);
                rep.count("quant.tie_histories", 1);
            }
            // (b) the notes above 10 V
            let keep = 1 + r.below(11) as u8; // a pitch class other than C
            let mut ops = vec![Op::Forbid((0..12u8).filter(|n| *n != keep).chain(std::iter::once(keep)).collect())];
            let top = 120 + keep as i64; // only `keep` allowed: 10.0 V converts to the nearest of (108+keep, 120+keep)
            ops.push(Op::Convert(10.0));
            ops.push(Op::Allow(vec![0]));
            for dv in [0.0, 0.03, 0.08, -0.004, 0.0875, 0.095, -0.02, 0.5] {
                ops.push(Op::Convert((top as f64 / 12.0 + dv) as f32));
            }
            ops.push(Op::Convert(10.0));
            ops.push(Op::Convert(9.99));
            ops.push(Op::Allow(vec![11]));
            ops.push(Op::Convert(10.3));
            ops.push(Op::Convert(9.93));
            run_and_record(&History { ops }, want, &mut rep, false);
            rep.count("quant.top_of_range_histories", 1);
        }
        rep
    })
}

pub fn random(ctx: &Ctx, want: &str) -> Report {
    let n_hist = ctx.budget(10, 40_000, 4_000_000) as usize;
    let shards = if ctx.tier == Tier::Small { 1 } else { 64 };
    par_shards(ctx, shards, |sh| {
        let mut rep = Report::new();
        let mut r = Rng::derive(ctx.seed, "quant.random", sh as u64);
        for j in 0..(n_hist + shards - 1) / shards {
            let h = gen_random(&mut r, if ctx.tier == Tier::Small { 60 } else { 400 });
            run_and_record(&h, want, &mut rep, sh == 0 && j < 2);
        }
        rep
    })
}

// ------------------------------------------------------------------------------------------------
// C08: history-free sweeps

fn c08_violation(mask: u16, v: f32, note: u8, why: String, clause: &str) -> Violation {
    c08_violation2(mask, None, v, note, why, clause)
}

fn c08_violation2(mask: u16, v_before: Option<f32>, v: f32, note: u8, why: String, clause: &str) -> Violation {
    let mut ops = mask_to_ops(mask);
    if let Some(b) = v_before {
        ops.push(Op::Convert(b));
    }
    ops.push(Op::Convert(v));
    let h = History { ops };
    Violation {
        clause: clause.into(),
        signature: format!("C08:{}", clause),
        message: format!("scale {:#05x}, fresh quantizer, convert({}) = note {}: {}", mask, fmt_f32(v), note, why),
        replay: h.to_text("C08", 99),
    }
}

/// sorted allowed note voltages (exact n/12 in f64) for notes 0..=131
fn allowed_voltages(mask: u16) -> Vec<(f64, u8)> {
    (0..=131u8).filter(|c| mask >> (c % 12) & 1 == 1).map(|c| (c as f64 / 12.0, c)).collect()
}

/// check one fresh conversion with the fast oracle (sorted candidates, moving pointer `ptr`)
#[inline]
fn c08_fast(cands: &[(f64, u8)], ptr: &mut usize, vc: f64, note: u8) -> bool {
    // ptr -> last candidate with voltage <= vc + UV10 (or 0)
    while *ptr + 1 < cands.len() && cands[*ptr + 1].0 <= vc + UV10 {
        *ptr += 1;
    }
    while *ptr > 0 && cands[*ptr].0 > vc + UV10 {
        *ptr -= 1;
    }
    let nv = note as f64 / 12.0;
    let d = vc - nv;
    if d >= -UV10 && d <= SEMI + UV10 {
        return true; // bucket winner (scale membership is checked by the caller)
    }
    // is there a strict bucket winner?
    let below = cands[*ptr];
    let db = vc - below.0;
    if db >= UV10 && db <= SEMI - UV10 {
        return false;
    }
    let mut best = db.abs();
    if *ptr + 1 < cands.len() {
        best = best.min((cands[*ptr + 1].0 - vc).abs());
    }
    if *ptr > 0 {
        best = best.min((vc - cands[*ptr - 1].0).abs());
    }
    d.abs() <= best + UV10
}

/// sweep `inputs` (ascending) over the scales `masks`; every conversion on a fresh real quantizer
pub fn c08_sweep(ctx: &Ctx, masks: &[u16], inputs: &(dyn Fn(usize) -> Option<f32> + Sync), label: &str) -> Report {
    let shards = masks.len().min(if ctx.tier == Tier::Small { 1 } else { 256 });
    par_shards(ctx, shards, |sh| {
        let mut rep = Report::new();
        let mut k = sh;
        let mut n_eval = 0u64;
        while k < masks.len() {
            let mask = masks[k];
            k += shards;
            let cands = allowed_voltages(mask);
            let mut ptr = 0usize;
            let mut last_note = 0u8;
            let mut last_v = f32::NEG_INFINITY;
            let base = Fresh::new(mask);
            let mut j = 0usize;
            let mut notes_seen = 0u32;
            while let Some(v) = inputs(j) {
                j += 1;
                // a fresh instance per conversion: Quantizer is plain data, so a bitwise copy of a fresh one is fresh
                let mut q = base.make();
                let res = guard(|| q.convert(v).note_num);
                n_eval += 1;
                let note = match res {
                    Ok(n) => n,
                    Err(p) => {
                        let mut vi = c08_violation(mask, v, 0, format!("panicked: {}", p), "panic");
                        vi.signature = format!("C08:panic:{}", p);
                        rep.violate(vi);
                        break;
                    }
                };
                let vc = (v as f64).clamp(0.0, 10.0);
                let in_scale = mask >> (note % 12) & 1 == 1 && note <= 131;
                if !in_scale || !c08_fast(&cands, &mut ptr, vc, note) {
                    let why = nearest_ok(mask, v, note).err().unwrap_or_else(|| "fast oracle and full oracle disagree".into());
                    if nearest_ok(mask, v, note).is_err() {
                        rep.violate(c08_violation(mask, v, note, why, "nearest"));
                        break;
                    }
                }
                if v >= last_v {
                    if note < last_note {
                        rep.violate(c08_violation2(mask, Some(last_v), v, note, format!("the note decreased from {} (at {} V) although the input rose", last_note, last_v), "monotone"));
                        break;
                    }
                    if note != last_note {
                        notes_seen += 1;
                    }
                }
                last_note = note;
                last_v = v;
            }
            rep.class(("c08", mask, notes_seen));
            rep.count(&format!("quant.c08.scales_swept.{}", label), 1);
        }
        rep.evaluations += n_eval;
        rep.count(&format!("quant.c08.conversions.{}", label), n_eval);
        rep
    })
}

/// builds fresh quantizers for one scale without allocating (Quantizer does not implement Clone)
pub struct Fresh {
    forbid: Vec<Note>,
}

impl Fresh {
    pub fn new(mask: u16) -> Self {
        Fresh { forbid: (0..12u8).filter(|n| mask >> n & 1 == 0).map(Note::from).collect() }
    }
    #[inline]
    pub fn make(&self) -> Quantizer {
        let mut q = Quantizer::new();
        if !self.forbid.is_empty() {
            q.forbid(&self.forbid);
        }
        q
    }
}

/// ops that lead to the scale `mask` by route `route` (0: forbid all with a member last, then allow the rest;
/// 1: forbid all with a non-member last, allow members, forbid that one; 2: one call per note)
pub fn scale_by_route(mask: u16, route: u8) -> Vec<Op> {
    let members: Vec<u8> = (0..12u8).filter(|n| mask >> n & 1 == 1).collect();
    let non: Vec<u8> = (0..12u8).filter(|n| mask >> n & 1 == 0).collect();
    match route {
        0 => {
            let keep = members[members.len() / 2];
            let mut all: Vec<u8> = (0..12u8).filter(|n| *n != keep).collect();
            all.push(keep);
            let rest: Vec<u8> = members.iter().copied().filter(|n| *n != keep).collect();
            let mut ops = vec![Op::Forbid(all)];
            if !rest.is_empty() {
                ops.push(Op::Allow(rest));
            }
            ops
        }
        1 if !non.is_empty() => {
            let last = non[0];
            let mut all: Vec<u8> = (0..12u8).filter(|n| *n != last).collect();
            all.push(last);
            vec![Op::Forbid(all), Op::Allow(members.clone()), Op::Forbid(vec![last])]
        }
        3 => {
            // a member forbidden together with the rest, then allowed by a call that names it twice
            let x = members[0];
            let mut f: Vec<u8> = non.clone();
            f.push(x);
            if members.len() == 1 {
                // forbidding everything keeps the last note of the argument: x
                vec![Op::Forbid(f), Op::Allow(vec![x, x])]
            } else {
                vec![Op::Forbid(f), Op::Allow(vec![x, x]), Op::Allow(vec![])]
            }
        }
        4 if !non.is_empty() => {
            // a non-member allowed by a call that names it twice, then forbidden once; duplicates in forbid too
            let y = non[non.len() / 2];
            let mut f: Vec<u8> = non.clone();
            f.extend(non.iter().copied());
            vec![Op::Forbid(f), Op::Allow(vec![y, y]), Op::Forbid(vec![y])]
        }
        5 => {
            // more forbidden than needed, then the surplus (the highest members) allowed again by ONE call that names
            // each of them twice, the repeats first: whatever bookkeeping allow() does per argument entry must not
            // run out of room before the last new note is reached
            let surplus: Vec<u8> = members.iter().rev().take(members.len().saturating_sub(1).min(3)).copied().collect();
            let mut f: Vec<u8> = non.clone();
            f.extend(surplus.iter().copied());
            let mut a: Vec<u8> = Vec::new();
            for (i, n) in surplus.iter().rev().enumerate() {
                a.push(*n);
                if i + 1 < surplus.len() || surplus.len() == 1 {
                    a.push(*n);
                }
            }
            let mut ops = Vec::new();
            if !f.is_empty() {
                ops.push(Op::Forbid(f));
            }
            if !a.is_empty() {
                ops.push(Op::Allow(a));
            }
            if ops.is_empty() {
                ops.push(Op::Allow(vec![0, 0]));
            }
            ops
        }
        _ => {
            let mut ops = Vec::new();
            for n in non.iter().rev() {
                ops.push(Op::Forbid(vec![*n]));
            }
            if ops.is_empty() {
                ops.push(Op::Allow(vec![0]));
            }
            ops
        }
    }
}

fn c08_edit_paths(ctx: &Ctx, masks: &[u16], grid: &[f32]) -> Report {
    let shards = masks.len().min(if ctx.tier == Tier::Small { 1 } else { 256 });
    par_shards(ctx, shards, |sh| {
        let mut rep = Report::new();
        let mut k = sh;
        let mut n_eval = 0u64;
        // a thinned grid: every route x every scale x every 7th grid point (offset by the scale)
        while k < masks.len() {
            let mask = masks[k];
            k += shards;
            for route in 0..6u8 {
                let ops = scale_by_route(mask, route);
                let mut last: Option<(f32, u8)> = None;
                let mut j = (mask as usize + route as usize) % 7;
                while j < grid.len() {
                    let v = grid[j];
                    j += 7;
                    let res = guard(|| {
                        let mut q = Quantizer::new();
                        for op in &ops {
                            match op {
                                Op::Allow(ns) => q.allow(&notes(ns)),
                                Op::Forbid(ns) => q.forbid(&notes(ns)),
                                _ => {}
                            }
                        }
                        q.convert(v).note_num
                    });
                    n_eval += 1;
                    let mk = |note: u8, why: String, clause: &str| {
                        let mut o = ops.clone();
                        o.push(Op::Convert(v));
                        Violation { clause: clause.into(), signature: format!("C08:{}", clause), message: format!("scale {:#05x} set up by {:?}, fresh quantizer, convert({}) = note {}: {}", mask, ops, v, note, why), replay: History { ops: o }.to_text("C08", 999) }
                    };
                    match res {
                        Err(p) => {
                            let mut vi = mk(0, format!("panicked: {}", p), "panic");
                            vi.signature = format!("C08:panic:{}", p);
                            rep.violate(vi);
                            break;
                        }
                        Ok(note) => {
                            if let Err(why) = nearest_ok(mask, v, note) {
                                rep.violate(mk(note, why, "nearest"));
                                break;
                            }
                            if let Some((lv, ln)) = last {
                                if v >= lv && note < ln {
                                    rep.violate(mk(note, format!("the note decreased from {} (at {} V) although the input rose", ln, lv), "monotone"));
                                    break;
                                }
                            }
                            last = Some((v, note));
                        }
                    }
                }
            }
            rep.count("quant.c08.scales_by_edit_paths", 1);
        }
        rep.evaluations += n_eval;
        rep
    })
}

/// boundary-targeted input grid: every half-semitone point of 0..10 V with small offsets, ascending
pub fn boundary_grid() -> Vec<f32> {
    let mut v: Vec<f64> = Vec::new();
    for k in 0..=240 {
        let c = k as f64 / 24.0;
        for off in [-40.0, -11.0, -9.0, -4.0, -1.0, 0.0, 1.0, 4.0, 9.0, 11.0, 40.0] {
            let x = c + off * 1e-6;
            if (0.0..=10.0).contains(&x) {
                v.push(x);
            }
        }
    }
    // hysteresis-free means window edges do not matter, but thirds of a semitone catch rounding of the split point
    for k in 0..=360 {
        v.push((k as f64 / 36.0).min(10.0));
    }
    let mut f: Vec<f32> = v.into_iter().map(|x| x as f32).collect();
    f.sort_by(|a, b| a.partial_cmp(b).unwrap());
    f.dedup();
    f
}

pub fn run_c08(ctx: &Ctx) -> Report {
    let mut rep = Report::new();
    let small = ctx.tier == Tier::Small;
    let all: Vec<u16> = if small { vec![0x0FFF, 0x008, 0x801, 0x555, 0x0AB5] } else { (1..=4095u16).collect() };
    let stage = |name: &str, r: Report, rep: &mut Report, t0: std::time::Instant| {
        let ev = r.evaluations;
        rep.merge(r);
        rep.stages.push((name.to_string(), t0.elapsed().as_secs_f64(), ev));
    };
    // (a) boundary grid, all scales
    let t = std::time::Instant::now();
    let grid = boundary_grid();
    let r = c08_sweep(ctx, &all, &|j| grid.get(j).copied(), "boundary_grid");
    stage("quant.c08.all_scales_x_boundary_grid", r, &mut rep, t);
    // (a2) the same scales reached through other edit histories (forbid-everything fallback, then allow the rest;
    //      allow/forbid in several calls): a fresh quantizer is one without a prior *conversion*, however its
    //      scale was set up
    let t = std::time::Instant::now();
    let r = c08_edit_paths(ctx, &all, &grid);
    stage("quant.c08.scales_built_by_edit_paths", r, &mut rep, t);
    // (a3) first conversions after edit preludes, swept finely (a placeholder cached note must not act as history)
    let t = std::time::Instant::now();
    stage("quant.c08.first_conversions_after_edits", first_conversions(ctx, "C08"), &mut rep, t);
    // (b) out-of-range and special inputs (not ascending: monotonicity is only judged on rising pairs)
    let t = std::time::Instant::now();
    let special: Vec<f32> = vec![f32::NEG_INFINITY, f32::MIN, -3.0e38, -1e30, -1.0, -1e-6, -0.0, 0.0, 1e-45, 1e-7, 9.999_999, 10.0, 10.000_001, 10.5, 11.0, 1e30, 3.0e38, f32::MAX, f32::INFINITY, f32::NAN];
    let r = c08_sweep(ctx, &all, &|j| special.get(j).copied(), "special_inputs");
    stage("quant.c08.all_scales_x_special_inputs", r, &mut rep, t);
    // (c) microvolt sweep: every microvolt (thorough) or a seed-offset stride (quick)
    let t = std::time::Instant::now();
    if ctx.tier == Tier::Thorough {
        let r = c08_sweep(ctx, &all, &|j| if j <= 10_000_000 { Some((j as f64 * 1e-6) as f32) } else { None }, "every_microvolt");
        stage("quant.c08.all_scales_x_every_microvolt", r, &mut rep, t);
        if rep.violations.is_empty() {
            rep.exhaustive = Some("all 4095 non-empty scales x all 10,000,001 microvolt inputs in [0,10] V, each on a fresh quantizer, plus boundary grid and out-of-range inputs".into());
        }
    } else {
        let stride = if small { 499_979usize } else { 997 };
        let off = (ctx.seed as usize * 131) % stride;
        let r = c08_sweep(ctx, &all, &|j| {
            let m = off + j * stride;
            if m <= 10_000_000 {
                Some((m as f64 * 1e-6) as f32)
            } else {
                None
            }
        }, "microvolt_stride");
        stage("quant.c08.all_scales_x_microvolt_stride", r, &mut rep, t);
    }
    if !small {
        rep.floor("quant.c08.scales_swept.boundary_grid", 4095);
        rep.floor("quant.c08.scales_swept.special_inputs", 4095);
        rep.floor("quant.c08.scales_by_edit_paths", 4095);
    }
    rep.sample(format!("scale 0x008 (only D#) x boundary grid of {} inputs: {:?} ...", grid.len(), &grid[..6]));
    rep.sample("scale 0xab5 (C major) x inputs 0 uV, 997 uV, 1994 uV, ... (fresh quantizer each)".to_string());
    rep
}

pub fn run(ctx: &Ctx, prop: &str) -> Report {
    if prop == "C08" {
        return run_c08(ctx);
    }
    let mut rep = Report::new();
    let stage = |name: &str, r: Report, rep: &mut Report, t0: std::time::Instant| {
        let ev = r.evaluations;
        rep.merge(r);
        rep.stages.push((name.to_string(), t0.elapsed().as_secs_f64(), ev));
    };
    let t = std::time::Instant::now();
    stage("quant.directed_forbid_cached_note", directed_forbid_cached(ctx, prop), &mut rep, t);
    let t = std::time::Instant::now();
    stage("quant.sequences", sequences(ctx, prop), &mut rep, t);
    let t = std::time::Instant::now();
    stage("quant.first_conversions_after_edits", first_conversions(ctx, prop), &mut rep, t);
    let t = std::time::Instant::now();
    stage("quant.exact_ties_and_top_of_range", ties_and_top(ctx, prop), &mut rep, t);
    let t = std::time::Instant::now();
    stage("quant.random_histories", random(ctx, prop), &mut rep, t);
    let t = std::time::Instant::now();
    stage("quant.long_counts", long_counts(ctx, prop), &mut rep, t);
    let t = std::time::Instant::now();
    stage("quant.edit_storms", edit_storms(ctx, prop), &mut rep, t);
    if ctx.tier != Tier::Small {
        for o in 0..=10 {
            rep.floor(&format!("quant.c07.cached_note_forbidden_same_input.octave{}", o), if o == 10 { 7 } else { 100 });
        }
        rep.floor("quant.conv.kept_by_window", 5000);
        rep.floor("quant.conv.outside_window", 5000);
        rep.floor("quant.conv.cached_note_forbidden", 1000);
        rep.floor("quant.edit.forbid_would_empty", 100);
    }
    rep
}

pub fn replay(t: &Text, want: &str, rep: &mut Report) -> Result<Option<Violation>, String> {
    let h = History::parse(t)?;
    if want == "C08" {
        // a C08 replay is a scale followed by one conversion on a fresh instance
        let mut mask: u16 = 0x0FFF;
        let mut last: Option<(f32, u8)> = None;
        for op in &h.ops {
            match op {
                Op::Forbid(ns) => {
                    for n in ns {
                        mask &= !(1 << (*n).min(11));
                    }
                }
                Op::Allow(ns) => {
                    for n in ns {
                        mask |= 1 << (*n).min(11);
                    }
                }
                Op::EditStorm(_, _, _) => {}
                Op::Convert(v) => {
                    // the scale is set up by replaying the recorded edits themselves
                    let mut q = Quantizer::new();
                    for e in &h.ops {
                        match e {
                            Op::Allow(ns) => q.allow(&notes(ns)),
                            Op::Forbid(ns) => q.forbid(&notes(ns)),
                            _ => {}
                        }
                    }
                    let note = q.convert(*v).note_num;
                    rep.evaluations += 1;
                    if let Err(why) = nearest_ok(mask, *v, note) {
                        return Ok(Some(c08_violation(mask, *v, note, why, "nearest")));
                    }
                    if let Some((lv, ln)) = last {
                        if *v >= lv && note < ln {
                            return Ok(Some(c08_violation2(mask, Some(lv), *v, note, format!("the note decreased from {} (at {} V) although the input rose", ln, lv), "monotone")));
                        }
                    }
                    last = Some((*v, note));
                }
            }
        }
        return Ok(None);
    }
    Ok(execute(&h, want, rep))
}
