//! ADSR: one recording driver, three monitors.
//!   C01  range, per-phase monotonicity, exact end levels, fidelity to the documented RC curves
//!   C02  phase order (reference state machine) and phase duration (interval integration of progress)
//!   C03  tick-to-tick continuity against the slope bound of the active curve
//! The phase and the counter position are read through the verif-hooks accessors.

use crate::replay::{f, pf, pu, Text};
use crate::report::{fmt_f32, guard, par_shards, Ctx, Report, Tier, Violation};
use crate::rng::Rng;
use synth_utils::adsr::{Adsr, Input, State, SustainLevel, TimePeriod};

pub const TWO24: f64 = 16_777_216.0;
const ULP1: f64 = 1.0 / 8_388_608.0; // 2^-23
const REL: f64 = 1.0 / 4_194_304.0; // 2^-22: two f32 roundings of the increment computation
/// steepest slopes of the generator's curves per unit phase
pub const S_ATTACK: f64 = 1.810_62;
pub const S_DECAY: f64 = 4.074_63;

#[derive(Clone, Debug, PartialEq)]
pub enum Op {
    GateOn,
    GateOff,
    Tick(u64),
    Attack(f32),
    Decay(f32),
    Sustain(f32),
    Release(f32),
    /// n set_input writes in a row to one input (0 attack, 1 decay, 2 release, 3 sustain), alternating the two
    /// raw values, the last write being the second one
    SetStorm(u8, f32, f32, u64),
}

#[derive(Clone, Debug)]
pub struct History {
    pub fs: f32,
    pub ops: Vec<Op>,
}

impl History {
    pub fn to_text(&self, property: &str, upto_op: usize, ticks_in_last: Option<u64>) -> String {
        let mut t = Text::new();
        t.set("property", property).set("module", "adsr").set("fs", format!("{}  # {}", f(self.fs), self.fs));
        for (i, op) in self.ops.iter().enumerate() {
            if i > upto_op {
                break;
            }
            let s = match op {
                Op::GateOn => "gate_on".to_string(),
                Op::GateOff => "gate_off".to_string(),
                Op::Tick(n) => format!("tick {}", if i == upto_op { ticks_in_last.unwrap_or(*n) } else { *n }),
                Op::Attack(x) => format!("attack {}  # {:e}", f(*x), x),
                Op::Decay(x) => format!("decay {}  # {:e}", f(*x), x),
                Op::Sustain(x) => format!("sustain {}  # {:e}", f(*x), x),
                Op::Release(x) => format!("release {}  # {:e}", f(*x), x),
                Op::SetStorm(w, a, b, n) => format!("set_storm {} {} {} {}", w, f(*a), f(*b), n),
            };
            t.ops.push(s);
        }
        t.to_text()
    }
    pub fn parse(t: &Text) -> Result<Self, String> {
        let fs = pf(t.get("fs")?)?;
        let mut ops = Vec::new();
        for l in &t.ops {
            let mut it = l.split_whitespace();
            let name = it.next().unwrap_or("");
            let arg = it.next();
            let op = match name {
                "gate_on" => Op::GateOn,
                "gate_off" => Op::GateOff,
                "tick" => Op::Tick(pu(arg.ok_or("arg")?)?),
                "attack" => Op::Attack(pf(arg.ok_or("arg")?)?),
                "decay" => Op::Decay(pf(arg.ok_or("arg")?)?),
                "sustain" => Op::Sustain(pf(arg.ok_or("arg")?)?),
                "release" => Op::Release(pf(arg.ok_or("arg")?)?),
                "set_storm" => {
                    let w = pu(arg.ok_or("arg")?)? as u8;
                    let a = pf(it.next().ok_or("arg")?)?;
                    let b = pf(it.next().ok_or("arg")?)?;
                    Op::SetStorm(w, a, b, pu(it.next().ok_or("arg")?)?)
                }
                _ => return Err(format!("unknown adsr op '{}'", l)),
            };
            ops.push(op);
        }
        Ok(History { fs, ops })
    }
    pub fn brief(&self) -> String {
        let txt: Vec<String> = self.ops.iter().take(14).map(|o| format!("{:?}", o)).collect();
        format!("adsr fs={} ops=[{}{}]", self.fs, txt.join(", "), if self.ops.len() > 14 { ", ..." } else { "" })
    }
}

#[inline]
pub fn curve_attack(u: f64) -> f64 {
    (1.0 - (-4.0 * u / 3.0).exp()) / (1.0 - (-4.0f64 / 3.0).exp())
}
#[inline]
pub fn curve_decay(u: f64) -> f64 {
    ((-4.0 * u).exp() - (-4.0f64).exp()) / (1.0 - (-4.0f64).exp())
}

fn sname(s: State) -> &'static str {
    match s {
        State::AtRest => "AtRest",
        State::Attack => "Attack",
        State::Decay => "Decay",
        State::Sustain => "Sustain",
        State::Release => "Release",
    }
}
fn sidx(s: State) -> u8 {
    match s {
        State::AtRest => 0,
        State::Attack => 1,
        State::Decay => 2,
        State::Sustain => 3,
        State::Release => 4,
    }
}

pub fn clamp_time(raw: f32) -> f32 {
    f32::from(TimePeriod::from(raw))
}
pub fn clamp_level(raw: f32) -> f32 {
    f32::from(SustainLevel::from(raw))
}

/// the time the property says is configured by `raw`: clamped to [1 ms, 20 s] (the numbers of the
/// property, not the crate's constants); NaN becomes a bound - whichever the implementation picks
pub fn spec_time(raw: f32) -> f32 {
    if raw.is_nan() {
        if clamp_time(raw) == 20.0 {
            20.0
        } else {
            0.001
        }
    } else if raw < 0.001 {
        0.001
    } else if raw > 20.0 {
        20.0
    } else {
        raw
    }
}
pub fn spec_level(raw: f32) -> f32 {
    if raw.is_nan() {
        if clamp_level(raw) == 1.0 {
            1.0
        } else {
            0.0
        }
    } else if raw < 0.0 {
        0.0
    } else if raw > 1.0 {
        1.0
    } else if raw == 0.0 {
        0.0
    } else {
        raw
    }
}

fn wanted(want: &str, prop: &str, clause: &str) -> bool {
    // a phase that does not end in time is a hang for C17, and for C01 an attack / decay / release that never
    // arrives at exactly 1.0 / the sustain level / 0.0
    want == prop || want == "ALL" || ((want == "C17" || want == "C01") && prop == "C02" && clause == "late")
}

/// what a monitored run of one history learned besides the verdict (used by the C17/C20 drivers)
#[derive(Default, Clone, Debug)]
pub struct Trace {
    pub values: Vec<u32>,
}

/// Execute one history on the real Adsr under the monitors of C01/C02/C03.
pub fn execute(h: &History, want: &str, rep: &mut Report, mut trace: Option<&mut Trace>) -> Option<Violation> {
    let fs = h.fs;
    let fs64 = fs as f64;
    let mk = |prop: &str, clause: &str, msg: String, i: usize, ticks: Option<u64>| -> Violation {
        let p = if want == "C17" || (want == "C01" && clause == "late") { want } else { prop };
        let c = if want == "C17" && clause == "late" {
            "hang"
        } else if want == "C01" && clause == "late" {
            "end-level-not-reached"
        } else {
            clause
        };
        Violation {
            clause: c.to_string(),
            signature: format!("{}:{}", p, c),
            message: format!("{} [fs={} op#{} {:?}{}]", msg, fs, i, h.ops[i.min(h.ops.len().saturating_sub(1))], ticks.map(|t| format!(" tick {}", t)).unwrap_or_default()),
            replay: h.to_text(p, i, ticks),
        }
    };
    let mut n_eval: u64 = 0;
    macro_rules! call {
        ($e:expr, $i:expr, $ticks:expr) => {
            match guard(|| $e) {
                Ok(v) => v,
                Err(p) => {
                    rep.evaluations += n_eval;
                    let mut v = mk(want, "panic", format!("panicked: {}", p), $i, $ticks);
                    v.signature = format!("{}:panic:{}", want, p);
                    return Some(v);
                }
            }
        };
    }
    macro_rules! fail {
        ($prop:expr, $clause:expr, $msg:expr, $i:expr, $ticks:expr) => {
            if wanted(want, $prop, $clause) {
                rep.evaluations += n_eval;
                return Some(mk($prop, $clause, $msg, $i, $ticks));
            }
        };
    }
    let mut adsr = call!(Adsr::new(fs), 0, None);

    // ---- reference state ----
    let mut st = State::AtRest;
    let (mut ta, mut td, mut tr) = (0.001f32, 0.001f32, 0.001f32);
    let mut s: f32 = 1.0;
    let mut l0_a: f64 = 0.0; // level latched at the start of the latest attack
    let mut l0_r: f64 = 0.0; // level latched at the start of the latest release
    let (mut lo, mut hi) = (0.0f64, 0.0f64); // progress interval of the running timed phase
    let mut ticks_in_phase: u64 = 0;
    let mut ds_since_tick: f64 = 0.0;
    let mut s_changed = false;
    let mut v_prev: f32 = call!(adsr.value(), 0, None);
    // maxima
    let (mut max_ratio_a, mut max_ratio_d, mut max_ratio_r) = (0.0f64, 0.0f64, 0.0f64);
    let mut max_dev: f64 = 0.0;
    let mut max_dip: f64 = 0.0;
    let mut max_late: f64 = 0.0;
    let mut last_class: u64 = u64::MAX;
    // local counters (flushed at the end)
    let mut c_ticks = [0u64; 5];
    let mut c_trans = [0u64; 5];
    let mut c_done_band = [0u64; 5];
    let mut c_gate = [[0u64; 5]; 2];
    let mut c_set = [0u64; 5];

    if call!(adsr.verif_state(), 0, None) != State::AtRest || v_prev != 0.0 {
        fail!("C02", "initial-state", format!("fresh Adsr is in {} with value {}", sname(adsr.verif_state()), v_prev), 0, None);
    }

    for (i, op) in h.ops.iter().enumerate() {
        match op {
            Op::GateOn | Op::GateOff => {
                let on = matches!(op, Op::GateOn);
                let bits_before = call!(adsr.verif_phase_bits(), i, None);
                if on {
                    call!(adsr.gate_on(), i, None);
                } else {
                    call!(adsr.gate_off(), i, None);
                }
                n_eval += 1;
                let got = call!(adsr.verif_state(), i, None);
                let v = call!(adsr.value(), i, None);
                let bits = call!(adsr.verif_phase_bits(), i, None);
                c_gate[on as usize][sidx(st) as usize] += 1;
                let accepted = if on { st != State::Attack } else { matches!(st, State::Attack | State::Decay | State::Sustain) };
                let expect = if accepted {
                    if on {
                        State::Attack
                    } else {
                        State::Release
                    }
                } else {
                    st
                };
                rep.class(("gate", on, sidx(st), sidx(got), (v_prev * 8.0) as u8));
                if got != expect {
                    fail!("C02", "gate-transition", format!("{} in {} must lead to {}, implementation is in {}", if on { "gate_on" } else { "gate_off" }, sname(st), sname(expect), sname(got)), i, None);
                }
                if v.to_bits() != v_prev.to_bits() {
                    fail!("C03", "gate-moves-output", format!("value() changed {} -> {} on a gate call (it may only change on tick)", fmt_f32(v_prev), fmt_f32(v)), i, None);
                }
                if accepted {
                    st = expect;
                    if on {
                        l0_a = v_prev as f64;
                    } else {
                        l0_r = v_prev as f64;
                    }
                    lo = 0.0;
                    hi = 0.0;
                    ticks_in_phase = 0;
                    if bits != 0 {
                        fail!("C02", "gate-phase-restart", format!("accepted gate event left the phase counter at {} instead of restarting the phase", bits), i, None);
                    }
                } else if bits != bits_before {
                    fail!("C02", "ignored-gate-disturbs", format!("ignored gate event in {} moved the phase counter {} -> {}", sname(st), bits_before, bits), i, None);
                }
            }
            Op::Attack(_) | Op::Decay(_) | Op::Sustain(_) | Op::Release(_) | Op::SetStorm(_, _, _, _) => {
                let bits_before = call!(adsr.verif_phase_bits(), i, None);
                match op {
                    Op::SetStorm(which, a, b, n) => {
                        let (which, a, b, n) = (*which, *a, *b, *n);
                        call!(
                            {
                                let mk = |x: f32| match which {
                                    0 => Input::Attack(x.into()),
                                    1 => Input::Decay(x.into()),
                                    2 => Input::Release(x.into()),
                                    _ => Input::Sustain(x.into()),
                                };
                                let (ia, ib) = (mk(a), mk(b));
                                let mut use_b = n % 2 == 1;
                                for _ in 0..n {
                                    adsr.set_input(if use_b { ib } else { ia });
                                    use_b = !use_b;
                                }
                            },
                            i,
                            None
                        );
                        n_eval += n.saturating_sub(1);
                        if n > 0 {
                            match which {
                                0 => ta = call!(spec_time(b), i, None),
                                1 => td = call!(spec_time(b), i, None),
                                2 => tr = call!(spec_time(b), i, None),
                                _ => {
                                    let ns = call!(spec_level(b), i, None);
                                    ds_since_tick += (ns as f64 - s as f64).abs();
                                    if ns != s {
                                        s_changed = true;
                                    }
                                    s = ns;
                                }
                            }
                            c_set[(which as usize).min(3)] += n;
                        }
                    }
                    Op::Attack(x) => {
                        call!(adsr.set_input(Input::Attack((*x).into())), i, None);
                        ta = call!(spec_time(*x), i, None);
                        c_set[0] += 1;
                    }
                    Op::Decay(x) => {
                        call!(adsr.set_input(Input::Decay((*x).into())), i, None);
                        td = call!(spec_time(*x), i, None);
                        c_set[1] += 1;
                    }
                    Op::Release(x) => {
                        call!(adsr.set_input(Input::Release((*x).into())), i, None);
                        tr = call!(spec_time(*x), i, None);
                        c_set[2] += 1;
                    }
                    Op::Sustain(x) => {
                        call!(adsr.set_input(Input::Sustain((*x).into())), i, None);
                        let ns = call!(spec_level(*x), i, None);
                        ds_since_tick += (ns as f64 - s as f64).abs();
                        if ns != s {
                            s_changed = true;
                        }
                        s = ns;
                        c_set[3] += 1;
                    }
                    _ => unreachable!(),
                }
                n_eval += 1;
                let got = call!(adsr.verif_state(), i, None);
                let v = call!(adsr.value(), i, None);
                let bits = call!(adsr.verif_phase_bits(), i, None);
                if got != st {
                    fail!("C02", "set_input-changes-phase", format!("set_input moved the envelope from {} to {}", sname(st), sname(got)), i, None);
                }
                if bits != bits_before {
                    fail!("C02", "set_input-moves-counter", format!("set_input moved the phase counter {} -> {} (a time change may only rescale the remaining part)", bits_before, bits), i, None);
                }
                if v.to_bits() != v_prev.to_bits() {
                    fail!("C03", "set_input-moves-output", format!("value() changed {} -> {} on set_input", fmt_f32(v_prev), fmt_f32(v)), i, None);
                }
            }
            Op::Tick(n) => {
                for t in 1..=*n {
                    let before = st;
                    // the phase counter before the tick (C03 speaks of the fraction of the phase that the tick covers)
                    let bits_prev = if want == "C03" || want == "ALL" { call!(adsr.verif_phase_bits(), i, Some(t)) } else { 0 };
                    call!(adsr.tick(), i, Some(t));
                    n_eval += 1;
                    let got = call!(adsr.verif_state(), i, Some(t));
                    let v = call!(adsr.value(), i, Some(t));
                    let bits = call!(adsr.verif_phase_bits(), i, Some(t));
                    if let Some(tr) = trace.as_deref_mut() {
                        tr.values.push(v.to_bits());
                    }
                    c_ticks[sidx(before) as usize] += 1;
                    // ---------------- C02: order and duration ----------------
                    let timed = matches!(before, State::Attack | State::Decay | State::Release);
                    let (tcur, next) = match before {
                        State::Attack => (ta, State::Decay),
                        State::Decay => (td, State::Sustain),
                        State::Release => (tr, State::AtRest),
                        other => (0.0, other),
                    };
                    let x = if timed { 1.0 / (tcur as f64 * fs64) } else { 0.0 };
                    if timed {
                        lo += (x * (1.0 - REL) - 1.0 / TWO24).max(0.0);
                        hi += x * (1.0 + REL);
                        ticks_in_phase += 1;
                        if got == before {
                            // C17 only says "after finitely many ticks": as bounded progress, ten times what C02 allows
                            // (a wider time clamp is C20's and C02's business, not a hang)
                            if lo >= if want == "C17" { 10.0 } else { 1.0 } {
                                fail!(
                                    "C02",
                                    "late",
                                    format!("{} has not ended after {} ticks although at least {:.6} phase durations have elapsed (T={} s, T*fs={:.4}; a phase of N ticks may last at most N/(1-N/2^24)+2)", sname(before), ticks_in_phase, lo, tcur, tcur as f64 * fs64),
                                    i,
                                    Some(t)
                                );
                            }
                            if lo > max_late {
                                max_late = lo;
                            }
                        } else if got == next {
                            if hi < 1.0 {
                                fail!(
                                    "C02",
                                    "early",
                                    format!("{} ended after {} ticks although at most {:.6} of its duration has elapsed (T={} s, T*fs={:.4})", sname(before), ticks_in_phase, hi, tcur, tcur as f64 * fs64),
                                    i,
                                    Some(t)
                                );
                            }
                            c_trans[sidx(before) as usize] += 1;
                            let n_nom = tcur as f64 * fs64;
                            let band = if n_nom < 1.0 {
                                0
                            } else if n_nom <= 2.0 {
                                1
                            } else if n_nom <= 100.0 {
                                2
                            } else if n_nom <= 10_000.0 {
                                3
                            } else {
                                4
                            };
                            c_done_band[band] += 1;
                            rep.class(("done", sidx(before), band, (if before == State::Release { l0_r } else { l0_a } * 8.0) as u8));
                            st = next;
                            lo = 0.0;
                            hi = 0.0;
                            ticks_in_phase = 0;
                        } else {
                            fail!("C02", "illegal-transition", format!("tick moved the envelope from {} to {}", sname(before), sname(got)), i, Some(t));
                            st = got;
                        }
                    } else if got != before {
                        fail!("C02", "plateau-left", format!("tick moved the envelope from {} to {} without a gate event", sname(before), sname(got)), i, Some(t));
                        st = got;
                    }
                    let after = st;
                    // ---------------- C01: range, monotone, end levels, fidelity ----------------
                    if !(v >= 0.0 && v <= 1.0) {
                        fail!("C01", "range", format!("value {} outside [0,1] in {}", fmt_f32(v), sname(after)), i, Some(t));
                    }
                    let vd = v as f64;
                    let vp = v_prev as f64;
                    let u = bits as f64 / TWO24;
                    let slack = 4.0 * ULP1;
                    if before == State::Attack && after != State::Attack && after != State::Decay && v != 1.0 {
                        // whatever state the tick went to (an illegal one is C02's business): the attack is over and
                        // it has to have risen "up to exactly 1.0"
                        fail!("C01", "attack-end-level", format!("the attack ended (tick moved the envelope to {}) at {} without the output ever being exactly 1.0", sname(after), fmt_f32(v)), i, Some(t));
                    }
                    match after {
                        State::Attack => {
                            if vd < vp - slack {
                                fail!("C01", "attack-not-rising", format!("attack fell {} -> {}", fmt_f32(v_prev), fmt_f32(v)), i, Some(t));
                            }
                            if vp - vd > max_dip {
                                max_dip = vp - vd;
                            }
                            let want_v = l0_a + (1.0 - l0_a) * curve_attack(u);
                            let dev = (vd - want_v).abs();
                            if dev > max_dev {
                                max_dev = dev;
                            }
                            if !(dev <= 0.005) {
                                fail!("C01", "attack-curve", format!("attack value {} at phase {:.6} from start level {:.6}: RC curve gives {:.6} (deviation {:.5} > 0.005)", v, u, l0_a, want_v, dev), i, Some(t));
                            }
                        }
                        State::Decay => {
                            if before == State::Attack {
                                if v != 1.0 {
                                    fail!("C01", "attack-end-level", format!("the attack ended at {} instead of exactly 1.0", fmt_f32(v)), i, Some(t));
                                }
                            } else {
                                if !s_changed && vd > vp + slack {
                                    fail!("C01", "decay-not-falling", format!("decay rose {} -> {}", fmt_f32(v_prev), fmt_f32(v)), i, Some(t));
                                }
                                if !s_changed && vd - vp > max_dip {
                                    max_dip = vd - vp;
                                }
                            }
                            if vd < s as f64 - slack {
                                fail!("C01", "decay-below-sustain", format!("decay value {} below the sustain level {}", fmt_f32(v), fmt_f32(s)), i, Some(t));
                            }
                            let want_v = s as f64 + (1.0 - s as f64) * curve_decay(u);
                            let dev = (vd - want_v).abs();
                            if dev > max_dev {
                                max_dev = dev;
                            }
                            if !(dev <= 0.005) {
                                fail!("C01", "decay-curve", format!("decay value {} at phase {:.6} toward sustain {}: RC curve gives {:.6} (deviation {:.5} > 0.005)", v, u, s, want_v, dev), i, Some(t));
                            }
                        }
                        State::Sustain => {
                            if v != s {
                                fail!("C01", "sustain-level", format!("sustaining at {} but the sustain level is {}", fmt_f32(v), fmt_f32(s)), i, Some(t));
                            }
                        }
                        State::Release => {
                            if vd > vp + slack {
                                fail!("C01", "release-not-falling", format!("release rose {} -> {}", fmt_f32(v_prev), fmt_f32(v)), i, Some(t));
                            }
                            if vd - vp > max_dip {
                                max_dip = vd - vp;
                            }
                            let want_v = l0_r * curve_decay(u);
                            let dev = (vd - want_v).abs();
                            if dev > max_dev {
                                max_dev = dev;
                            }
                            if !(dev <= 0.005) {
                                fail!("C01", "release-curve", format!("release value {} at phase {:.6} from start level {:.6}: RC curve gives {:.6} (deviation {:.5} > 0.005)", v, u, l0_r, want_v, dev), i, Some(t));
                            }
                        }
                        State::AtRest => {
                            if v != 0.0 {
                                fail!("C01", "rest-level", format!("at rest with value {}", fmt_f32(v)), i, Some(t));
                            }
                        }
                    }
                    // ---------------- C03: continuity ----------------
                    // the fraction of the phase covered by this tick: what the configured time commands, or what the
                    // phase counter actually did if that is more (whether the time in force is the right one is C02's
                    // clause; a jump of the output is a discontinuity only relative to the phase actually covered)
                    let same = after == before;
                    let x_obs = |p: State| -> f64 {
                        if p == before {
                            if same { (bits as f64 - bits_prev as f64).max(0.0) / TWO24 } else { (TWO24 - bits_prev as f64).max(0.0) / TWO24 }
                        } else {
                            bits as f64 / TWO24
                        }
                    };
                    let slope = |p: State| -> f64 {
                        match p {
                            State::Attack => S_ATTACK * (1.0 - l0_a) * (1.0 / (ta as f64 * fs64)).max(x_obs(p)),
                            State::Decay => S_DECAY * (1.0 - s as f64) * (1.0 / (td as f64 * fs64)).max(x_obs(p)),
                            State::Release => S_DECAY * l0_r * (1.0 / (tr as f64 * fs64)).max(x_obs(p)),
                            _ => 0.0,
                        }
                    };
                    // on a boundary tick the ending phase's remaining distance is what is covered
                    let b_before = slope(before);
                    let b_after = if after == before { 0.0 } else { slope(after) };
                    let bound = 1.005 * b_before.max(b_after) * (1.0 + REL) + ds_since_tick + 4.0 * ULP1;
                    let step = (vd - vp).abs();
                    if !(step <= bound) {
                        fail!(
                            "C03",
                            "step",
                            format!("output moved {:e} in one tick ({} -> {}, {} -> {}); the steepest slope of the active curve allows {:e} (attack start {:.6}, release start {:.6}, sustain {}, sustain change {:e})", step, fmt_f32(v_prev), fmt_f32(v), sname(before), sname(after), bound, l0_a, l0_r, s, ds_since_tick),
                            i,
                            Some(t)
                        );
                    }
                    let core = 1.005 * b_before.max(b_after) * (1.0 + REL);
                    if core > 1e-9 && ds_since_tick == 0.0 {
                        let ratio = (step - 4.0 * ULP1).max(0.0) / core;
                        match before {
                            State::Attack => {
                                if ratio > max_ratio_a {
                                    max_ratio_a = ratio
                                }
                            }
                            State::Decay => {
                                if ratio > max_ratio_d {
                                    max_ratio_d = ratio
                                }
                            }
                            State::Release => {
                                if ratio > max_ratio_r {
                                    max_ratio_r = ratio
                                }
                            }
                            _ => {}
                        }
                    }
                    // classes: (phase, table-cell octile, T*fs decade, start-level octile)
                    if timed {
                        let dec = ((tcur as f64 * fs64).max(0.1).log10().floor() as i64 + 1) as u64;
                        let cls = ((sidx(before) as u64) << 32) | ((bits >> 21) as u64) << 16 | dec << 8 | ((if before == State::Release { l0_r } else { l0_a } * 8.0) as u64).min(8);
                        if cls != last_class {
                            last_class = cls;
                            rep.class(("tick", cls));
                        }
                    }
                    v_prev = v;
                    ds_since_tick = 0.0;
                    s_changed = false;
                }
            }
        }
    }
    rep.evaluations += n_eval;
    const N: [&str; 5] = ["AtRest", "Attack", "Decay", "Sustain", "Release"];
    for k in 0..5 {
        rep.count(&format!("adsr.tick_in.{}", N[k]), c_ticks[k]);
        rep.count(&format!("adsr.gate_on_in.{}", N[k]), c_gate[1][k]);
        rep.count(&format!("adsr.gate_off_in.{}", N[k]), c_gate[0][k]);
    }
    rep.count("adsr.completed.Attack", c_trans[1]);
    rep.count("adsr.completed.Decay", c_trans[2]);
    rep.count("adsr.completed.Release", c_trans[4]);
    const B: [&str; 5] = ["lt1", "1to2", "2to100", "100to1e4", "gt1e4"];
    for k in 0..5 {
        rep.count(&format!("adsr.completed_phase_Tfs.{}", B[k]), c_done_band[k]);
    }
    rep.count("adsr.set_input.attack", c_set[0]);
    rep.count("adsr.set_input.decay", c_set[1]);
    rep.count("adsr.set_input.release", c_set[2]);
    rep.count("adsr.set_input.sustain", c_set[3]);
    rep.count("adsr.histories", 1);
    rep.max("adsr.max_step_over_bound.attack", max_ratio_a);
    rep.max("adsr.max_step_over_bound.decay", max_ratio_d);
    rep.max("adsr.max_step_over_bound.release", max_ratio_r);
    rep.max("adsr.max_deviation_from_rc_curve", max_dev);
    rep.max("adsr.max_counter_monotonic_dip", max_dip);
    rep.max("adsr.max_progress_lower_bound_without_end", max_late);
    None
}


// ------------------------------------------------------------------------------------------------
// workloads

pub const FS_LIST: [f32; 32] = [
    100.0, 125.0, 128.0, 200.0, 250.0, 256.0, 441.0, 500.0, 512.0, 999.0, 1000.0, 1001.0, 1024.0, 2000.0, 4000.0, 8000.0, 11025.0, 12000.0, 16000.0, 22050.0, 24000.0, 32000.0, 44100.0, 48000.0,
    64000.0, 88200.0, 96000.0, 100000.0, 128000.0, 176400.0, 191999.0, 192000.0,
];

pub fn pick_fs(r: &mut Rng) -> f32 {
    if r.chance(0.5) {
        *r.pick(&FS_LIST)
    } else {
        r.log_uniform(100.0, 192000.0) as f32
    }
}

const GARBAGE: [f32; 10] = [0.0, -1.0, f32::NAN, f32::INFINITY, f32::NEG_INFINITY, 1e-45, f32::MAX, f32::MIN, -0.0, 1e-39];

/// a raw time argument whose clamped value gives about `n` ticks per phase at `fs`
fn time_for_ticks(n: f64, fs: f32) -> f32 {
    (n / fs as f64) as f32
}

/// any raw time argument: in range, special, or garbage (which the conversions clamp)
pub fn pick_time(r: &mut Rng, fs: f32, max_ticks: f64) -> f32 {
    let t = match r.below(12) {
        0 => *r.pick(&GARBAGE),
        1 => *r.pick(&[0.001f32, 20.0, 0.000_999, 20.5, 0.002, 0.001_953_125, 0.003_906_25, 0.007_812_5, 0.5, 0.25]),
        2 => (*r.pick(&[1.0f64, 0.5, 0.999, 1.001, 2.0, 1.5, 3.0, 0.1]) / fs as f64) as f32,
        3 => r.log_uniform(1e-4, 40.0) as f32,
        _ => time_for_ticks(r.log_uniform(0.1, max_ticks.max(0.2)), fs),
    };
    // keep the history's tick budget: an in-range time that is too long for it is shortened
    let tc = spec_time(t);
    if (tc as f64) * (fs as f64) > max_ticks {
        time_for_ticks(max_ticks, fs)
    } else {
        t
    }
}

pub fn pick_level(r: &mut Rng) -> f32 {
    match r.below(10) {
        0 => *r.pick(&GARBAGE),
        1 => *r.pick(&[0.0f32, 1.0, 0.5, 1.0 + f32::EPSILON, 1.0 - f32::EPSILON / 2.0, 1e-7, 2.0, -0.5]),
        _ => r.unit() as f32,
    }
}

fn phase_ticks(raw: f32, fs: f32) -> f64 {
    (spec_time(raw) as f64 * fs as f64).max(1.0)
}

fn enough(n_nominal: f64) -> u64 {
    (n_nominal / (1.0 - n_nominal / TWO24)).ceil() as u64 + 4
}

/// S1/S5: whole envelopes to sustain and to rest
pub fn gen_cycle(r: &mut Rng, fs: f32, max_ticks: f64) -> History {
    let (a, d, rl) = (pick_time(r, fs, max_ticks), pick_time(r, fs, max_ticks), pick_time(r, fs, max_ticks));
    let s = pick_level(r);
    let mut ops = vec![Op::Attack(a), Op::Decay(d), Op::Sustain(s), Op::Release(rl)];
    let cycles = 1 + r.below(3);
    for _ in 0..cycles {
        ops.push(Op::GateOn);
        ops.push(Op::Tick(enough(phase_ticks(a, fs)) + enough(phase_ticks(d, fs)) + r.below(5)));
        ops.push(Op::GateOff);
        ops.push(Op::Tick(enough(phase_ticks(rl, fs)) + r.below(5)));
    }
    History { fs, ops }
}

/// S2/S3/S4: gate events and parameter changes at arbitrary offsets inside the phases
pub fn gen_storm(r: &mut Rng, fs: f32, max_ticks: f64, events: u64, p_param: f64) -> History {
    let mut t = [pick_time(r, fs, max_ticks), pick_time(r, fs, max_ticks), pick_time(r, fs, max_ticks)];
    let mut ops = vec![Op::Attack(t[0]), Op::Decay(t[1]), Op::Sustain(pick_level(r)), Op::Release(t[2])];
    for _ in 0..events {
        if r.chance(p_param) {
            let k = r.below(4);
            let op = match k {
                0 => {
                    t[0] = pick_time(r, fs, max_ticks);
                    Op::Attack(t[0])
                }
                1 => {
                    t[1] = pick_time(r, fs, max_ticks);
                    Op::Decay(t[1])
                }
                2 => {
                    t[2] = pick_time(r, fs, max_ticks);
                    Op::Release(t[2])
                }
                _ => {
                    if r.chance(0.4) {
                        // a slow sweep of the sustain level: tiny steps (down to one ulp) from the level in force
                        let base = match ops.iter().rev().find_map(|o| if let Op::Sustain(x) = o { Some(*x) } else { None }) {
                            Some(x) if x.is_finite() => x.max(0.0).min(1.0),
                            _ => 0.5,
                        };
                        let d = *r.pick(&[1.2e-7f32, 1e-6, 1e-5, 1e-4, 5e-4, 1e-3]) * if r.chance(0.5) { 1.0 } else { -1.0 };
                        Op::Sustain(base + d)
                    } else {
                        Op::Sustain(pick_level(r))
                    }
                }
            };
            ops.push(op);
        } else {
            match r.below(5) {
                0 | 1 => ops.push(Op::GateOn),
                2 | 3 => ops.push(Op::GateOff),
                _ => {}
            }
        }
        if r.chance(0.06) {
            // a slow sweep of one time input, a fraction of a percent per tick, while the envelope runs
            let which = r.usize_below(3);
            let rate = *r.pick(&[1.0002f32, 1.0007, 0.9995, 0.999, 1.003]);
            let steps = 50 + r.below(1500);
            let mut cur = spec_time(t[which]);
            ops.push(if r.chance(0.5) { Op::GateOn } else { Op::GateOff });
            for _ in 0..steps {
                cur = (cur * rate).max(0.001).min(20.0);
                ops.push(match which {
                    0 => Op::Attack(cur),
                    1 => Op::Decay(cur),
                    _ => Op::Release(cur),
                });
                ops.push(Op::Tick(1));
            }
            t[which] = cur;
        }
        // how long to run: relative to one of the phase lengths
        let n = phase_ticks(*r.pick(&t), fs);
        let ticks = match r.below(12) {
            0 => 0,
            1 => 1,
            2 => 2,
            3 => (n as u64).saturating_sub(1),
            4 => n as u64,
            5 => n as u64 + 1,
            6 => enough(n),
            7 => enough(n) * 2 + 3,
            _ => (n * r.unit() * 1.2) as u64,
        };
        if ticks > 0 {
            ops.push(Op::Tick(ticks));
        }
    }
    History { fs, ops }
}

/// S6: thousands of gate calls between two ticks
pub fn gen_flood(r: &mut Rng, fs: f32) -> History {
    let mut ops = vec![Op::Attack(pick_time(r, fs, 50.0)), Op::Decay(pick_time(r, fs, 50.0)), Op::Sustain(pick_level(r)), Op::Release(pick_time(r, fs, 50.0))];
    for _ in 0..(3 + r.below(6)) {
        let n = 10 + r.below(2000);
        for _ in 0..n {
            ops.push(if r.chance(0.5) { Op::GateOn } else { Op::GateOff });
        }
        ops.push(Op::Tick(1 + r.below(40)));
    }
    History { fs, ops }
}

pub fn run_and_record(h: &History, want: &str, rep: &mut Report, sample: bool) {
    if sample {
        rep.sample(h.brief());
    }
    if let Some(v) = execute(h, want, rep, None) {
        rep.violate(shrink(h, want, v));
    }
}

fn total_ticks(ops: &[Op]) -> u64 {
    ops.iter()
        .map(|o| match o {
            Op::Tick(n) => *n,
            Op::SetStorm(_, _, _, n) => *n / 4 + 1,
            _ => 1,
        })
        .sum()
}

/// greedy delta debugging on the op list while the same clause keeps firing (short histories only)
pub fn shrink(h: &History, want: &str, v: Violation) -> Violation {
    // only the part up to the failing call matters
    let cut = Text::parse(&v.replay).ok().and_then(|t| History::parse(&t).ok());
    let base = match cut {
        Some(c) => c,
        None => return v,
    };
    if base.ops.len() > 3000 || total_ticks(&base.ops) > 300_000 {
        return v;
    }
    let sig = v.signature.clone();
    let fails = |ops: &[Op]| {
        let hh = History { fs: h.fs, ops: ops.to_vec() };
        let mut scratch = Report::new();
        matches!(execute(&hh, want, &mut scratch, None), Some(x) if x.signature == sig)
    };
    let ops = crate::report::shrink_ops(&base.ops, 600, fails);
    let hh = History { fs: h.fs, ops };
    let mut scratch = Report::new();
    match execute(&hh, want, &mut scratch, None) {
        Some(x) if x.signature == sig => x,
        _ => v,
    }
}

/// directed stage: deterministic, pins the coverage floor
pub fn directed(ctx: &Ctx, want: &str) -> Report {
    let small = ctx.tier == Tier::Small;
    // (fs, T) pairs with T*fs <= 1, = 1 exactly, just above 1, and ordinary
    let mut cfgs: Vec<(f32, f32)> = vec![
        (100.0, 0.01),
        (100.0, 0.001),
        (200.0, 0.005),
        (512.0, 0.001_953_125),
        (256.0, 0.003_906_25),
        (128.0, 0.007_812_5),
        (999.0, 0.001),
        (1000.0, 0.001),
        (1001.0, 0.001),
        (1024.0, 0.001),
        (300.0, 0.005),
        (700.0, 0.002),
        (1000.0, 0.1),
        (48000.0, 0.001),
        (48000.0, 0.01),
        (192000.0, 0.0011),
        (8000.0, 0.05),
        (100.0, 15.0),
    ];
    if small {
        // under the interpreter: a few configurations, chosen by the seed, at reduced depth
        let n = ctx.budget(3, 3, 3) as usize;
        let start = (ctx.seed as usize * 5) % cfgs.len();
        cfgs = (0..n.max(1)).map(|k| cfgs[(start + k * 3) % cfgs.len()]).filter(|(fs, t)| (*t as f64) * (*fs as f64) <= 60.0).collect();
        if cfgs.is_empty() {
            cfgs.push((100.0, 0.01));
        }
    }
    par_shards(ctx, cfgs.len(), |j| {
        let mut rep = Report::new();
        let (fs, t) = cfgs[j];
        let n = phase_ticks(t, fs);
        let e = enough(n);
        let levels: &[f32] = if small { &[0.5] } else { &[1.0, 0.0, 0.5, 0.25, 0.9] };
        for &s in levels {
            let mut ops = vec![Op::Attack(t), Op::Decay(t), Op::Sustain(s), Op::Release(t)];
            // full cycle, then every gate event at every offset class of every phase
            ops.extend([Op::GateOn, Op::Tick(2 * e + 3), Op::GateOff, Op::Tick(e + 3)]);
            let offs: Vec<u64> = {
                let mut v = vec![0, 1, 2, (n as u64) / 4, (n as u64) / 2, (n as u64).saturating_sub(1), n as u64, n as u64 + 1, e];
                v.sort();
                v.dedup();
                if small {
                    v = vec![0, 1, (n as u64) / 2];
                    v.dedup();
                }
                v
            };
            for &k in &offs {
                // retrigger / release k ticks into attack
                ops.extend([Op::GateOn, Op::Tick(k), Op::GateOn, Op::Tick(1), Op::GateOff, Op::Tick(k), Op::GateOff, Op::GateOn, Op::Tick(e + k), Op::GateOff, Op::GateOn, Op::Tick(2 * e + 2), Op::GateOn, Op::Tick(k), Op::GateOff, Op::Tick(e + 2), Op::GateOff, Op::GateOn, Op::GateOff, Op::Tick(e + 2)]);
                // sustain moved in every phase
                ops.extend([Op::GateOn, Op::Tick(k), Op::Sustain(s * 0.5), Op::Tick(e), Op::Sustain(s), Op::Tick(e + 1), Op::Sustain(0.75), Op::Tick(2), Op::GateOff, Op::Tick(k.min(e)), Op::Sustain(s), Op::Tick(e + 2)]);
                // times changed in mid-phase
                ops.extend([Op::GateOn, Op::Tick(k), Op::Attack(t * 2.0), Op::Tick(k), Op::Attack(t), Op::Tick(2 * e), Op::Decay(t * 3.0), Op::GateOn, Op::Tick(e + k), Op::Decay(t), Op::Tick(3 * e), Op::GateOff, Op::Tick(k), Op::Release(t * 0.5), Op::Tick(e + 2), Op::Release(t)]);
            }
            let h = History { fs, ops };
            run_and_record(&h, want, &mut rep, j == 0 && s == 0.5);
        }
        rep
    })
}

/// seeded random histories
pub fn random(ctx: &Ctx, want: &str) -> Report {
    let n_hist = ctx.budget(10, 40_000, 4_000_000);
    let shards = if ctx.tier == Tier::Small { 2 } else { 128usize };
    par_shards(ctx, shards, |sh| {
        let mut rep = Report::new();
        let mut r = Rng::derive(ctx.seed, "adsr.random", sh as u64);
        let per = (n_hist as usize + shards - 1) / shards;
        for j in 0..per {
            let fs = pick_fs(&mut r);
            let small = ctx.tier == Tier::Small;
            let h = match r.below(10) {
                0 | 1 => gen_cycle(&mut r, fs, if small { 30.0 } else { 3_000.0 }),
                2 => gen_flood(&mut r, fs),
                3 | 4 => {
                    // sub-sample and near-one-sample phases
                    let fs = *r.pick(&[100.0f32, 128.0, 200.0, 256.0, 300.0, 441.0, 512.0, 700.0, 999.0, 1000.0, 1001.0, 1024.0, 2000.0, 2999.0]);
                    gen_storm(&mut r, fs, 3.0, if small { 10 } else { 60 }, 0.3)
                }
                5 => gen_storm(&mut r, fs, if small { 20.0 } else { 400.0 }, if small { 8 } else { 40 }, 0.6),
                _ => gen_storm(&mut r, fs, if small { 20.0 } else { 2_000.0 }, if small { 8 } else { 30 }, 0.2),
            };
            run_and_record(&h, want, &mut rep, sh == 0 && j < 3);
        }
        rep
    })
}

/// slow phases ticked through completely: T*fs from 10^4 up to the maximum 20 s * 192 kHz
pub fn slow(ctx: &Ctx, want: &str) -> Report {
    if ctx.tier == Tier::Small {
        return Report::new();
    }
    let n = ctx.budget(0, 16, 400) as usize;
    par_shards(ctx, n, |j| {
        let mut rep = Report::new();
        let mut r = Rng::derive(ctx.seed, "adsr.slow", j as u64);
        let (fs, ticks) = match j {
            0 => (192000.0f32, 3_840_000.0),
            1 => (48000.0, 960_000.0),
            2 => (44100.0, 882_000.0),
            _ => {
                let fs = pick_fs(&mut r);
                (fs, r.log_uniform(1e4, (20.0 * fs as f64).max(2e4)))
            }
        };
        let t = time_for_ticks(ticks, fs);
        let s = if j % 3 == 0 { 0.0 } else { r.unit() as f32 };
        let e = enough(phase_ticks(t, fs));
        let mut ops = vec![Op::Attack(t), Op::Decay(t), Op::Sustain(s), Op::Release(t), Op::GateOn, Op::Tick(2 * e + 2), Op::GateOff, Op::Tick(e / 3), Op::GateOn, Op::Tick(e / 2), Op::GateOff, Op::Tick(e + 2)];
        if j % 2 == 1 {
            // a slow release from a partial level after a retrigger in mid-decay
            ops.extend([Op::GateOn, Op::Tick(e + e / 5), Op::GateOff, Op::Tick(e + 2)]);
        }
        let h = History { fs, ops };
        run_and_record(&h, want, &mut rep, j == 0);
        rep.count("adsr.slow_histories", 1);
        rep
    })
}

/// long-count histories: many gate cycles, and very long stays on the sustain / rest plateaus
/// (counts around 2^8, 2^16 and 2^24, where a narrow counter inside the envelope would wrap)
pub fn long_counts(ctx: &Ctx, want: &str) -> Report {
    if ctx.tier == Tier::Small {
        return Report::new();
    }
    let jobs: Vec<u32> = (0..6).collect();
    par_shards(ctx, jobs.len(), |j| {
        let mut rep = Report::new();
        let fs = [1000.0f32, 48000.0, 100.0, 44100.0, 192000.0, 8000.0][j];
        let t = 3.0 / fs; // three-tick phases
        let mut ops = vec![Op::Attack(t), Op::Decay(t), Op::Sustain(0.5), Op::Release(t)];
        match j {
            0 | 1 => {
                // 70 000 complete gate cycles
                for _ in 0..70_000 {
                    ops.extend([Op::GateOn, Op::Tick(9), Op::GateOff, Op::Tick(5)]);
                }
            }
            2 => {
                // 70 000 retriggers without ever coming to rest, then 300 ignored gate-ons in attack
                for k in 0..70_000u32 {
                    ops.extend([Op::GateOn, Op::Tick(1 + (k % 3) as u64), Op::GateOff, Op::Tick(1)]);
                }
                ops.push(Op::Attack(20.0));
                for _ in 0..300 {
                    ops.extend([Op::GateOn, Op::Tick(1)]);
                }
            }
            3 => {
                // 2^24 + a few ticks sustaining, then as many at rest
                ops.extend([Op::GateOn, Op::Tick((1 << 24) + 40), Op::GateOff, Op::Tick((1 << 24) + 40), Op::GateOn, Op::Tick(20)]);
            }
            4 => {
                // 2^16 +- 1 ticks on each plateau, several times
                for d in [65_535u64, 65_536, 65_537, 255, 256, 257] {
                    ops.extend([Op::GateOn, Op::Tick(d), Op::GateOff, Op::Tick(d)]);
                }
            }
            _ => {
                // thorough only: 2^31 ticks sustaining would be too slow to be useful; a 2^27 stay is affordable
                let n = if ctx.tier == Tier::Thorough { 1u64 << 27 } else { 1 << 22 };
                ops.extend([Op::GateOn, Op::Tick(n), Op::Sustain(0.25), Op::Tick(5), Op::GateOff, Op::Tick(n / 4)]);
            }
        }
        let h = History { fs, ops };
        run_and_record(&h, want, &mut rep, false);
        rep.count("adsr.long_count_histories", 1);
        rep
    })
}

/// a parameter written a power-of-two number of times between two ticks of a running phase (a wrapped write
/// counter would make the last write invisible): 2^8, 2^16, 2^20, 2^31 and 2^32 writes (+0 and +1)
pub fn set_storms(ctx: &Ctx, want: &str) -> Report {
    if ctx.tier == Tier::Small {
        return Report::new();
    }
    // (the write loop has no observable effect but the last write, so the compiler folds it: even 2^32 writes cost
    // nothing, and a wrapping write counter in the envelope is folded to `+= n` alike - the wrap is still exercised)
    let totals: Vec<u64> = vec![256, 65_536, 1 << 20, 1 << 31, 1 << 32];
    let mut jobs: Vec<(u64, u8)> = Vec::new();
    for t in &totals {
        for d in [0u64, 1] {
            for which in 0..4u8 {
                if *t >= 1 << 31 && which == 1 {
                    continue; // keep the 2^32 storms to three inputs
                }
                jobs.push((*t + d, which));
            }
        }
    }
    par_shards(ctx, jobs.len(), |j| {
        let mut rep = Report::new();
        let (n, which) = jobs[j];
        let fs = [1000.0f32, 44100.0, 192000.0, 100.0][j % 4];
        let slow = 8.0f32;
        let fast = 40.0 / fs; // 40 ticks
        let e_fast = enough(phase_ticks(fast, fs));
        let mut ops = vec![Op::Attack(slow), Op::Decay(slow), Op::Sustain(0.8), Op::Release(slow)];
        match which {
            0 => ops.extend([Op::GateOn, Op::Tick(10), Op::SetStorm(0, slow, fast, n), Op::Tick(e_fast + 3), Op::Decay(fast), Op::Tick(e_fast + 3)]),
            1 => ops.extend([Op::Attack(fast), Op::GateOn, Op::Tick(e_fast + 5), Op::SetStorm(1, slow, fast, n), Op::Tick(e_fast + 3)]),
            2 => ops.extend([Op::Attack(fast), Op::Decay(fast), Op::GateOn, Op::Tick(2 * e_fast + 5), Op::GateOff, Op::Tick(7), Op::SetStorm(2, slow, fast, n), Op::Tick(e_fast + 3)]),
            _ => ops.extend([Op::Attack(fast), Op::Decay(fast), Op::GateOn, Op::Tick(2 * e_fast + 5), Op::SetStorm(3, 0.8, 0.3, n), Op::Tick(4), Op::GateOff, Op::Tick(3)]),
        }
        let h = History { fs, ops };
        run_and_record(&h, want, &mut rep, j == 0);
        rep.count("adsr.set_storm_histories", 1);
        rep
    })
}

pub fn run(ctx: &Ctx, prop: &str) -> Report {
    let mut rep = Report::new();
    let stage = |name: &str, r: Report, rep: &mut Report, t0: std::time::Instant| {
        let ev = r.evaluations;
        rep.merge(r);
        rep.stages.push((name.to_string(), t0.elapsed().as_secs_f64(), ev));
    };
    let t = std::time::Instant::now();
    stage("adsr.set_storms", set_storms(ctx, prop), &mut rep, t);
    let t = std::time::Instant::now();
    stage("adsr.directed", directed(ctx, prop), &mut rep, t);
    let t = std::time::Instant::now();
    stage("adsr.random", random(ctx, prop), &mut rep, t);
    let t = std::time::Instant::now();
    stage("adsr.slow", slow(ctx, prop), &mut rep, t);
    let t = std::time::Instant::now();
    stage("adsr.long_counts", long_counts(ctx, prop), &mut rep, t);
    if ctx.tier != Tier::Small {
        for st in ["AtRest", "Attack", "Decay", "Sustain", "Release"] {
            rep.floor(&format!("adsr.gate_on_in.{}", st), 100);
            rep.floor(&format!("adsr.gate_off_in.{}", st), 100);
            rep.floor(&format!("adsr.tick_in.{}", st), 100);
        }
        for p in ["Attack", "Decay", "Release"] {
            rep.floor(&format!("adsr.completed.{}", p), 1000);
        }
        for b in ["lt1", "1to2", "2to100", "100to1e4", "gt1e4"] {
            rep.floor(&format!("adsr.completed_phase_Tfs.{}", b), if b == "gt1e4" { 20 } else { 50 });
        }
        for k in ["attack", "decay", "release", "sustain"] {
            rep.floor(&format!("adsr.set_input.{}", k), 100);
        }
        rep.floor("adsr.long_count_histories", 6);
    }
    rep
}

pub fn replay(t: &Text, want: &str, rep: &mut Report) -> Result<Option<Violation>, String> {
    let h = History::parse(t)?;
    Ok(execute(&h, want, rep, None))
}
