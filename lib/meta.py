"""Per-property metadata used by ./check for the evidence files, and the extra engines per tier."""

COMMON = [
    "the harness binary is built from /repo's working tree by cargo (path dependency, feature verif-hooks) in profile `verif` = release + overflow-checks + debug-assertions",
    "f32 arithmetic follows IEEE-754 on x86-64 SSE (no fast-math); results are deterministic, so a replay file reproduces a history exactly",
    "only executions actually driven are decided: 'held' means held on the monitored executions listed under coverage",
]

LFO_RULE = ("exhaustive sweep of all 2^24 phase-counter values (increment 1, across the wrap), whole-cycle sweeps at 9 larger increments, "
            "directed set_phase/reset/set_frequency scenarios at 16 sample rates and seeded random histories; every tick reads all 5 waveshapes. "
            "distinct_nontrivial = distinct (sine-table cell, increment magnitude class) pairs observed")

META = {
    "C10": {"rule": LFO_RULE, "assumptions": COMMON + ["the phase counter is read back through UpSaw: k=(UpSaw+1)*2^23 must be an integer; C11 ties k to the commanded phase"]},
    "C11": {"rule": LFO_RULE, "assumptions": COMMON + ["a frequency must have been set before the first tick (power-on increment is 0)", "negative-phase invariance is checked on dyadic p with |p|<8192 where p and p-m are both exact f32"]},
    "C12": {"rule": LFO_RULE, "assumptions": COMMON + ["ulp in the sine bound is taken at magnitude 1 (2^-23)"]},
}

ADSR_RULE = ("directed scenarios (17 (fs,T) pairs incl. T*fs<=1, =1, just above 1; gate events at every offset class of every phase; sustain and times moved in mid-phase), "
             "seeded random histories (whole cycles, retrigger/release storms, parameter modulation, sub-sample phases, gate floods) and slow phases ticked through completely (up to 20 s at 192 kHz); "
             "every tick is observed through value() and the verif-hooks accessors. distinct_nontrivial = distinct (event kind, phase before, phase after / table-cell octile, decade of T*fs, start-level octile) classes observed")
MIDI_RULE = ("byte-at-a-time histories on the real receiver compared after every byte with an independent MIDI 1.0 framer + receiver specification; "
             "distinct_nontrivial = distinct (reference decoder state x byte class), (message effect x held-count bucket x priority x retrigger) and (poll kind x latch x gate) classes observed")

META.update({
    "C01": {"rule": ADSR_RULE, "assumptions": COMMON + ["phase and counter position come from the read-only hooks Adsr::verif_state()/verif_phase_bits()", "the documented RC curves are the generator's formulas of non_rust_utils/lookup_table_gen.py evaluated in f64", "monotonicity allows 4 ulp (4.8e-7) of f32 rounding; the largest dip observed is reported under monitored_maxima"]},
    "C02": {"rule": ADSR_RULE, "assumptions": COMMON + ["phase read through Adsr::verif_state()", "per-tick progress x=1/(T*fs) is integrated as an interval [x(1-2^-22)-2^-24, x(1+2^-22)]: early = ended with upper bound < 1, late = not ended with lower bound >= 1", "all four inputs are set before the first gate event (power-on parameter values are not part of the property)"]},
    "C03": {"rule": ADSR_RULE, "assumptions": COMMON + ["slope bound 1.005*S*c*x*(1+2^-22)+|ds|+4ulp with S=1.81062 (attack), 4.07463 (decay/release), c the span of the segment, x the fraction of the phase one tick covers"]},
    "C04": {"rule": MIDI_RULE + "; workload: note-on / note-off / velocity-0 / All Notes Off on the listened channel, pools of 1..128 notes, explicit and running status, priority and retrigger switched at random, at most 32 outstanding note-ons", "assumptions": COMMON + ["histories are cut before a 33rd outstanding note-on (the property is stated up to 32)", "CC 123 is All Notes Off for any value byte"]},
    "C05": {"rule": MIDI_RULE + "; workload: the C04 streams with edge polls interleaved (sparse at several rates, and strict = both edges after every message)", "assumptions": COMMON + ["edge getters are polled on implementation and reference at the same instant"]},
    "C06": {"rule": MIDI_RULE + "; workload: 18 well-formed base streams x every split point x 16 channels with real-time bytes inserted, random insertions, and unstructured byte streams in four styles (uniform, status-heavy, data-heavy running status, own-channel with system bytes)", "assumptions": COMMON + ["pitch-bend scaling is taken from a table read from a fresh receiver (the scaling itself is judged by C18); framing decides which bytes form the value", "histories are cut before a 33rd outstanding note-on", "0xF9/0xFD are treated as real-time (transparent), 0xF4/0xF5 as system common (cancel running status)"]},
    "C18": {"rule": MIDI_RULE + "; workload: 16 channels x 128 controllers x 128 values (explicit + running status, listened + foreign channel), all 16384 pitch-bend values ascending/descending, scaling tables, and controllers interleaved with note traffic", "assumptions": COMMON + ["power-on defaults are read from a freshly constructed receiver at run time"]},
})

ENGINES = {}

HOOK_COMMITS = ["6c4927e"]
NOT_APPLICABLE = {}

def _t(engine, technique, level_text, level_note, design_ref):
    return {"engine": engine, "technique": technique, "level_text": level_text, "level_note": level_note, "design_ref": design_ref}

E1 = "E1 native monitored harness"
NOTE = "trusted: rustc/cargo, the harness' reference models (written from the property text), IEEE f32 on x86-64; only driven executions are decided"

MANIFEST_TEXT = {
    "C01": _t(E1, "runtime monitor (range/monotone/end-level/curve-fidelity assertions on hooked state) over directed + random gate/tick/set_input histories",
              "Every tick of every history is checked on the real Adsr: 0<=v<=1, monotone per phase, exact 1.0 / sustain / 0.0 at the phase ends, and |v - RC curve| <= 0.005 with the phase and counter position read through the hooks. Held on ~5*10^7 (quick) to ~10^10 (thorough) observed ticks covering every (phase x event) pair, start levels and T*fs from 0.1 to 3.84*10^6.",
              NOTE + "; hooks Adsr::verif_state/verif_phase_bits", "DESIGN.md 4 (C01)"),
    "C02": _t(E1, "online trace checker: reference phase state machine + interval integration of phase progress",
              "The hooked phase must equal an independent state machine after every call; phase ends are bracketed by an interval integration of 1/(T*fs) per tick (never early, late only by counter resolution), which also decides hangs on logical steps.",
              NOTE + "; hook Adsr::verif_state", "DESIGN.md 4 (C02)"),
    "C03": _t(E1, "runtime monitor on adjacent-tick differences against the active curve's slope bound",
              "For every pair of consecutive ticks |dv| is compared with the steepest slope of the active segment times the phase fraction per tick (+ sustain change); slow phases up to 20 s at 192 kHz are ticked through completely so a table-step staircase exceeds the bound by >10x.",
              NOTE + "; hook Adsr::verif_state", "DESIGN.md 4 (C03)"),
    "C04": _t(E1, "history + executable model: held-note list specification compared after every byte",
              "Message histories (presses/releases in every order, duplicates, strays, All Notes Off, priority/retrigger switches, 16 channels) are fed byte by byte to the real receiver; gate/note/velocity must equal an independent held-note specification after every byte.",
              NOTE, "DESIGN.md 4 (C04)"),
    "C05": _t(E1, "history + executable model of the two edge latches with polls interleaved at arbitrary positions",
              "Edge getters are polled at random and strict positions and compared with reference latches written from the property text; plus rising=>gate, falling=>!gate.",
              NOTE, "DESIGN.md 4 (C05)"),
    "C06": _t(E1, "differential monitor against an independent MIDI 1.0 framer after every byte; real-time insertion at every split point",
              "All 11 plain getters are compared with the reference after every byte of structured and unstructured streams; a real-time byte is inserted at every split point of 18 base streams on all 16 channels; panics are caught with debug assertions live.",
              NOTE, "DESIGN.md 4 (C06)"),
    "C18": _t(E1, "exhaustive run-time enumeration of the controller table and pitch-bend values under the reference receiver",
              "All 16x128x128 controller messages (listened and foreign channel) and all 16384 pitch-bend values per channel are sent to the real receiver and every getter compared with the reference; scaling endpoints exact, strictly increasing.",
              NOTE, "DESIGN.md 4 (C18)"),
    "C10": _t(E1, "runtime monitor over an exhaustive run-time sweep of all 2^24 phases + random histories",
              "Every one of the 2^24 reachable phase-counter values is visited on the real Lfo and all five shapes are compared with an independent closed-form oracle (exact for saws/square/triangle, 0.0125 for the sine); random tick/set_frequency/set_phase/reset histories reach the same phases by other routes. Exhaustive for the per-phase clauses.",
              NOTE, "DESIGN.md 4 (C10)"),
    "C11": _t(E1, "runtime monitor: phase read-back after every call vs commanded phase / frequency",
              "After every reset/set_phase/set_frequency/tick the counter is read back exactly and compared with the commanded phase or the f/fs advance interval; constant step while the frequency is unchanged over runs of up to 2*10^7 ticks.",
              NOTE, "DESIGN.md 4 (C11)"),
    "C12": _t(E1, "runtime monitor on adjacent-tick differences over all 2^24 adjacent phase pairs incl. the wrap",
              "Every adjacent pair of counter values (increment 1, including 2^24-1 -> 0) and whole cycles at larger increments are observed on the real Lfo; |dSine| and |dTriangle| are compared with the property's slope bounds.",
              NOTE, "DESIGN.md 4 (C12)"),
}
