#!/usr/bin/env python3
"""regenerate /verif/MANIFEST.json from lib/meta.py"""
import json, os, sys
sys.path.insert(0, os.path.dirname(os.path.abspath(__file__)))
from meta import META, ENGINES, MANIFEST_TEXT, HOOK_COMMITS, NOT_APPLICABLE

ALL = ["C%02d" % i for i in range(1, 21)]
checks = []
for p in ALL:
    if p not in META or p in NOT_APPLICABLE:
        continue
    t = MANIFEST_TEXT[p]
    checks.append({
        "property_id": p,
        "quick_cmd": "./check %s --tier quick" % p,
        "thorough_cmd": "./check %s --tier thorough" % p,
        "evidence_file": "/verif/evidence/%s.json" % p,
        "replay_cmd_template": "./check %s --replay {path}" % p,
        "engine": t["engine"],
        "level_claimed": {"category": "exploration", "text": t["level_text"], "design_ref": t["design_ref"]},
        "level_note": t["level_note"],
        "technique": t["technique"],
    })
na = [{"property_id": p, "reason": NOT_APPLICABLE.get(p, "monitor not built yet (work in progress); see DESIGN.md section 4 for the planned monitor")} for p in ALL if p not in META or p in NOT_APPLICABLE]
m = {
    "version": 1,
    "setup_cmd": "./setup.sh",
    "hooks": {
        "guard": "cargo feature verif-hooks (off by default)",
        "enable": "the harness depends on synth-utils = { path = \"/repo\", features = [\"verif-hooks\"] }",
        "baseline_off_cmd": "cd /repo && cargo test --workspace --no-fail-fast --offline",
        "source_commits": HOOK_COMMITS,
        "add_only": True,
    },
    "engines": [
        {"name": "E1 native monitored harness", "path": "/verif/harness", "serves_properties": [c["property_id"] for c in checks], "kind_free_text": "Rust binary built from /repo's working tree (release + overflow-checks + debug-assertions); recording driver, reference models and online monitors; 16 worker threads each owning its instances"},
        {"name": "E2 Miri", "path": "/verif/harness (cargo +nightly miri run, --tier small)", "serves_properties": sorted([p for p in ENGINES if any('miri' in getattr(e, '__name__', '') for t in ENGINES[p].values() for e in t)]), "kind_free_text": "the same workloads and monitors at reduced budgets under the Miri interpreter (UB, uninitialised reads, out-of-bounds in heapless)"},
        {"name": "E3 ASan", "path": "/verif/harness (nightly -Zsanitizer=address)", "serves_properties": sorted([p for p in ENGINES if any('asan' in getattr(e, '__name__', '') for t in ENGINES[p].values() for e in t)]), "kind_free_text": "native workloads under AddressSanitizer red-zones"},
    ],
    "checks": checks,
    "notes": "Runtime monitoring: every verdict comes from an oracle observing executions of the real crate. See DESIGN.md. KNOWN_FINDINGS.txt lists repaired defects (fixed:) and any recorded ones (known:).",
    "not_applicable": na,
}
json.dump(m, open("/verif/MANIFEST.json", "w"), indent=1)
print("MANIFEST.json: %d checks, %d not claimed" % (len(checks), len(na)))
