#!/bin/sh
# Source-line coverage of /repo/src reached by the quick-tier workloads of all 20 properties (E1 only).
# Informational (not part of any verdict): shows which lines of the crate the monitors' executions actually reach.
# usage: lib/coverage.sh [tier]      writes /verif/coverage/summary.txt
set -e
TIER=${1:-quick}
cd /verif
export CARGO_NET_OFFLINE=true
COV=/verif/.target/cov
rm -rf $COV/prof && mkdir -p $COV/prof coverage
RUSTFLAGS="-Cinstrument-coverage" CARGO_TARGET_DIR=$COV cargo +nightly build --offline --profile verif --manifest-path harness/Cargo.toml --bin run 2>&1 | tail -1
for i in 01 02 03 04 05 06 07 08 09 10 11 12 13 14 15 16 17 18 19 20; do
  T=$TIER; [ $i = 20 ] && T=small   # the 2^32 sweep is too slow with counters; its code is the two conversions
  timeout 600 env LLVM_PROFILE_FILE="$COV/prof/C$i-%p.profraw" $COV/verif/run C$i --tier $T --seed ${VERIF_SEED:-1} --threads 4 --scale 0.05 --out /dev/null --replay-dir /tmp/cov-replays >/dev/null 2>&1 || echo "C$i run failed"
done
TOOLS=$(dirname $(find $(rustc +nightly --print sysroot) -name llvm-profdata | head -1))
$TOOLS/llvm-profdata merge -sparse $COV/prof/*.profraw -o $COV/all.profdata
$TOOLS/llvm-cov report $COV/verif/run -instr-profile=$COV/all.profdata --ignore-filename-regex='(registry|harness|rustc|library)' > coverage/summary.txt 2>/dev/null
$TOOLS/llvm-cov show $COV/verif/run -instr-profile=$COV/all.profdata --ignore-filename-regex='(registry|harness|rustc|library|lookup_tables)' --show-line-counts-or-regions 2>/dev/null | grep -E '^ +[0-9]+\| +0\|' > coverage/uncovered_lines.txt || true
cat coverage/summary.txt
echo "--- uncovered lines (count 0):"; wc -l < coverage/uncovered_lines.txt
rm -rf /tmp/cov-replays $COV/prof
